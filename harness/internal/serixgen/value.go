package serixgen

import (
	"bytes"
	"math"
	"math/big"
	"reflect"
	"sort"
	"time"

	"pgregory.net/rapid"
)

// ValueMode selects how values are drawn.
type ValueMode int

const (
	// ValidMode constructs values that satisfy every drawn rule (bounds, uniqueness, ordering, must-occur,
	// UTF-8, non-nil), so Encode is expected to accept them with and without validation.
	ValidMode ValueMode = iota
	// FreeMode ignores the rules: many values violate one of them and Encode with validation (and sometimes
	// without) must refuse them - the reference encoder predicts which.
	FreeMode
)

var (
	runeAlphabet  = []rune{'a', 'b', 'z', '0', ' ', 0x00, 0x7f, 'é', 'ß', '日', '本', 0x1F600, 0xFFFD}
	two256        = new(big.Int).Lsh(big.NewInt(1), 256)
	maxU256       = new(big.Int).Sub(two256, big.NewInt(1))
	maxNanoSecond = int64(math.MaxInt64 / 1_000_000_000)
)

type valueGen struct {
	t    *rapid.T
	mode ValueMode
	cfg  Config
	// Labels collects facts about the drawn value (saturating time, NaN, nil optional, ...).
	Labels map[string]bool
}

// GenValue draws a value of n.T (addressable).
func GenValue(t *rapid.T, n *Node, mode ValueMode, cfg Config) (reflect.Value, map[string]bool) {
	g := &valueGen{t: t, mode: mode, cfg: cfg, Labels: map[string]bool{}}
	v := reflect.New(n.T).Elem()
	g.fill(n, v, "v")

	return v, g.Labels
}

func (g *valueGen) free() bool { return g.mode == FreeMode }

// boundaryLen occasionally returns a length right at the capacity of the length prefix (255/256/257 for one byte,
// 65535/65536 for two bytes): the largest length that fits must encode, the next one must be refused.
func (g *valueGen) boundaryLen(s Settings, label string, allow16 bool) (int, bool) {
	if s.Max != 0 || rapid.IntRange(0, 39).Draw(g.t, label+".boundary") != 0 {
		return 0, false
	}
	switch {
	case s.Prefix == 1 && g.free():
		g.Labels["prefix_capacity_boundary"] = true
		return rapid.SampledFrom([]int{255, 256, 257}).Draw(g.t, label+".blen"), true
	case s.Prefix == 1:
		g.Labels["prefix_capacity_boundary"] = true
		return 255, true
	case s.Prefix == 2 && allow16 && g.free():
		g.Labels["prefix_capacity_boundary"] = true
		return rapid.SampledFrom([]int{65535, 65536}).Draw(g.t, label+".blen"), true
	case s.Prefix == 2 && allow16:
		g.Labels["prefix_capacity_boundary"] = true
		return 65535, true
	}

	return 0, false
}

func (g *valueGen) drawLen(s Settings, label string, natural int) int {
	if g.free() {
		return rapid.IntRange(0, natural+2).Draw(g.t, label+".len")
	}
	lo, hi := s.Min, s.Max
	if hi == 0 {
		hi = lo + natural
	}
	if lo > hi {
		lo = hi
	}

	return rapid.IntRange(lo, hi).Draw(g.t, label+".len")
}

func (g *valueGen) drawInt(bits int, label string) int64 {
	min, max := int64(math.MinInt64), int64(math.MaxInt64)
	if bits < 64 {
		min, max = -(1 << (bits - 1)), (1<<(bits-1))-1
	}
	switch rapid.IntRange(0, 3).Draw(g.t, label+".icls") {
	case 0:
		return rapid.SampledFrom([]int64{0, 1, -1, min, max, min + 1, max - 1}).Draw(g.t, label+".ib")
	case 1:
		return rapid.Int64Range(-3, 300).Draw(g.t, label+".is") % (max + 1)
	default:
		return rapid.Int64Range(min, max).Draw(g.t, label+".iu")
	}
}

func (g *valueGen) drawUint(bits int, label string) uint64 {
	max := uint64(math.MaxUint64)
	if bits < 64 {
		max = (1 << bits) - 1
	}
	switch rapid.IntRange(0, 3).Draw(g.t, label+".ucls") {
	case 0:
		return rapid.SampledFrom([]uint64{0, 1, 2, max, max - 1, max/2 + 1, max / 2}).Draw(g.t, label+".ub")
	case 1:
		return rapid.Uint64Range(0, 300).Draw(g.t, label+".us") & max
	default:
		return rapid.Uint64Range(0, max).Draw(g.t, label+".uu")
	}
}

func (g *valueGen) drawFloat64(label string) float64 {
	switch rapid.IntRange(0, 3).Draw(g.t, label+".fcls") {
	case 0:
		bits := rapid.SampledFrom([]uint64{0, 0x8000000000000000, 0x7ff0000000000000, 0xfff0000000000000, 0x7ff8000000000001,
			0x7ff0000000000001, 0xfff8000000000000, 1, 0x7fefffffffffffff, 0x3ff0000000000000}).Draw(g.t, label+".fbits")
		if bits&0x7ff0000000000000 == 0x7ff0000000000000 && bits&0x000fffffffffffff != 0 {
			g.Labels["nan"] = true
		}
		return math.Float64frombits(bits)
	case 1:
		return float64(rapid.IntRange(-1000, 1000).Draw(g.t, label+".fsmall")) / 8
	default:
		f := math.Float64frombits(rapid.Uint64().Draw(g.t, label+".fany"))
		if f != f {
			g.Labels["nan"] = true
		}
		return f
	}
}

func (g *valueGen) drawFloat32(label string) float32 {
	switch rapid.IntRange(0, 2).Draw(g.t, label+".fcls") {
	case 0:
		bits := rapid.SampledFrom([]uint32{0, 0x80000000, 0x7f800000, 0xff800000, 0x7fc00001, 0x7f800001, 1, 0x7f7fffff, 0x3f800000}).Draw(g.t, label+".fbits")
		if bits&0x7f800000 == 0x7f800000 && bits&0x007fffff != 0 {
			g.Labels["nan"] = true
		}
		return math.Float32frombits(bits)
	case 1:
		return float32(rapid.IntRange(-1000, 1000).Draw(g.t, label+".fsmall")) / 8
	default:
		f := math.Float32frombits(rapid.Uint32().Draw(g.t, label+".fany"))
		if f != f {
			g.Labels["nan"] = true
		}
		return f
	}
}

func (g *valueGen) drawString(s Settings, label string) string {
	if g.free() && rapid.IntRange(0, 5).Draw(g.t, label+".badutf8") == 0 {
		g.Labels["invalid_utf8"] = true
		return string(rapid.SliceOfN(rapid.SampledFrom([]byte{0xff, 0xfe, 'a', 0xc3, 0x80}), 1, 4).Draw(g.t, label+".raw"))
	}
	if bl, ok := g.boundaryLen(s, label, true); ok {
		fill := rapid.SampledFrom([]byte{'a', 'z', '0'}).Draw(g.t, label+".fill")
		return string(bytes.Repeat([]byte{fill}, bl))
	}
	n := g.drawLen(s, label, 5)
	rs := rapid.SliceOfN(rapid.SampledFrom(runeAlphabet), n, n).Draw(g.t, label+".runes")
	str := string(rs)
	if !g.free() {
		// bounds are in bytes: trim whole runes, pad with ASCII
		for s.Max != 0 && len(str) > s.Max && len(rs) > 0 {
			rs = rs[:len(rs)-1]
			str = string(rs)
		}
		for len(str) < s.Min {
			str += "a"
		}
	}
	if len(str) != len(rs) {
		g.Labels["multibyte_string"] = true
	}

	return str
}

func (g *valueGen) drawBytes(n int, label string) []byte {
	return rapid.SliceOfN(rapid.OneOf(rapid.SampledFrom([]byte{0, 1, 0xff, 0x7f, 0x80}), rapid.Byte()), n, n).Draw(g.t, label+".bytes")
}

func (g *valueGen) drawBig(label string) *big.Int {
	cls := rapid.IntRange(0, 5).Draw(g.t, label+".bigcls")
	switch cls {
	case 0:
		return big.NewInt(int64(rapid.IntRange(0, 2).Draw(g.t, label+".bigsmall")))
	case 1:
		return new(big.Int).Set(maxU256)
	case 2:
		return new(big.Int).SetBytes(g.drawBytes(rapid.IntRange(1, 32).Draw(g.t, label+".bign"), label))
	case 3:
		return new(big.Int).Lsh(big.NewInt(1), uint(rapid.IntRange(0, 255).Draw(g.t, label+".bigshift")))
	default:
		if g.free() {
			g.Labels["bad_bigint"] = true
			switch rapid.IntRange(0, 2).Draw(g.t, label+".bigbad") {
			case 0:
				return big.NewInt(-1)
			case 1:
				return new(big.Int).Set(two256)
			default:
				return nil
			}
		}
		return new(big.Int).SetUint64(rapid.Uint64().Draw(g.t, label+".bigu64"))
	}
}

func (g *valueGen) drawTime(label string) time.Time {
	switch rapid.IntRange(0, 7).Draw(g.t, label+".tcls") {
	case 0:
		return time.Unix(0, 0).UTC()
	case 1:
		return time.Unix(0, 1).UTC()
	case 2:
		return time.Unix(0, math.MaxInt64).UTC()
	case 3:
		// outside the int64-nanosecond range: documented saturation
		g.Labels["saturating_time"] = true
		if rapid.Bool().Draw(g.t, label+".tneg") {
			return time.Unix(-int64(rapid.IntRange(1, 1<<40).Draw(g.t, label+".tnegsec")), int64(rapid.IntRange(0, 999_999_999).Draw(g.t, label+".tnegns"))).UTC()
		}
		return time.Unix(maxNanoSecond+int64(rapid.IntRange(0, 1<<40).Draw(g.t, label+".tpossec")), 999_999_999).UTC()
	case 4:
		return time.Unix(maxNanoSecond, int64(rapid.IntRange(0, 854_775_807).Draw(g.t, label+".tedge"))).UTC()
	default:
		return time.Unix(0, rapid.Int64Range(0, math.MaxInt64).Draw(g.t, label+".tany")).UTC()
	}
}

// fill sets v (addressable, of type n.T) to a drawn value.
func (g *valueGen) fill(n *Node, v reflect.Value, label string) {
	switch n.Kind {
	case KBool:
		v.SetBool(rapid.Bool().Draw(g.t, label))
	case KInt8:
		v.SetInt(g.drawInt(8, label))
	case KInt16:
		v.SetInt(g.drawInt(16, label))
	case KInt32:
		v.SetInt(g.drawInt(32, label))
	case KInt64:
		v.SetInt(g.drawInt(64, label))
	case KUint8:
		v.SetUint(g.drawUint(8, label))
	case KUint16:
		v.SetUint(g.drawUint(16, label))
	case KUint32:
		v.SetUint(g.drawUint(32, label))
	case KUint64:
		v.SetUint(g.drawUint(64, label))
	case KFloat32:
		// Convert float32->float32 keeps signalling NaN payloads (SetFloat would go through float64 and quiet them)
		v.Set(reflect.ValueOf(g.drawFloat32(label)).Convert(n.T))
	case KFloat64:
		v.SetFloat(g.drawFloat64(label))
	case KString:
		v.SetString(g.drawString(n.S, label))
	case KBytes:
		if bl, ok := g.boundaryLen(n.S, label, true); ok {
			v.SetBytes(bytes.Repeat([]byte{rapid.Byte().Draw(g.t, label+".fill")}, bl))
			return
		}
		l := g.drawLen(n.S, label, 5)
		b := g.drawBytes(l, label)
		if l == 0 && rapid.Bool().Draw(g.t, label+".nil") {
			b = nil
		}
		v.SetBytes(b)
	case KByteArr:
		b := g.drawBytes(n.N, label)
		for i := 0; i < n.N; i++ {
			v.Index(i).SetUint(uint64(b[i]))
		}
	case KBigInt:
		bi := g.drawBig(label)
		switch {
		case bi == nil:
			v.Set(reflect.Zero(n.T))
		case n.T.Kind() == reflect.Ptr:
			v.Set(reflect.ValueOf(bi))
		default:
			v.Set(reflect.ValueOf(*bi)) // a big.Int held by value
		}
	case KTime:
		v.Set(reflect.ValueOf(g.drawTime(label)))
	case KSlice:
		g.fillSlice(n, v, label)
	case KArray:
		for i := 0; i < n.N; i++ {
			g.fill(n.Elem, v.Index(i), label+".a")
		}
	case KMap:
		g.fillMap(n, v, label)
	case KStruct:
		for _, f := range n.Fields {
			fv := v.Field(f.Index)
			fl := label + "." + f.GoName
			switch {
			case f.Embedded && f.EmbPtr:
				if g.free() && rapid.IntRange(0, 5).Draw(g.t, fl+".nilemb") == 0 {
					g.Labels["nil_embedded_pointer"] = true
					fv.Set(reflect.Zero(f.N.T))

					continue
				}
				p := reflect.New(f.N.Elem.T)
				g.fill(f.N.Elem, p.Elem(), fl)
				fv.Set(p)
			case f.Optional:
				if rapid.IntRange(0, 2).Draw(g.t, fl+".nil") == 0 {
					g.Labels["nil_optional"] = true
					fv.Set(reflect.Zero(f.N.T))
				} else {
					g.Labels["set_optional"] = true
					g.fillNonNil(f.N, fv, fl)
				}
			default:
				g.fill(f.N, fv, fl)
			}
		}
	case KPtr:
		if g.free() && rapid.IntRange(0, 9).Draw(g.t, label+".nilptr") == 0 {
			g.Labels["nil_pointer"] = true
			v.Set(reflect.Zero(n.T))
			return
		}
		g.fillNonNil(n, v, label)
	case KIface:
		if g.free() && rapid.IntRange(0, 9).Draw(g.t, label+".niliface") == 0 {
			g.Labels["nil_interface"] = true
			v.Set(reflect.Zero(n.T))
			return
		}
		g.fillNonNil(n, v, label)
	case KCustom:
		switch n.Custom {
		case "u24":
			x := uint32(g.drawUint(24, label))
			if g.free() && rapid.IntRange(0, 9).Draw(g.t, label+".bad") == 0 {
				x = 1 << 24
				g.Labels["custom_refuses"] = true
			}
			v.Set(reflect.ValueOf(CustomU24{V: x}))
		case "p16":
			v.Set(reflect.ValueOf(CustomP16{V: uint16(g.drawUint(16, label))}))
		case "pr":
			v.Set(reflect.ValueOf(CustomPR{V: uint8(g.drawUint(8, label))}))
		case "var":
			l := rapid.IntRange(0, 4).Draw(g.t, label+".len")
			v.Set(reflect.ValueOf(CustomVar{B: append([]byte{}, g.drawBytes(l, label)...)}))
		}
	}
}

func (g *valueGen) fillNonNil(n *Node, v reflect.Value, label string) {
	switch n.Kind {
	case KPtr:
		p := reflect.New(n.Elem.T)
		g.fill(n.Elem, p.Elem(), label)
		v.Set(p)
	case KIface:
		im := n.Impls[rapid.IntRange(0, len(n.Impls)-1).Draw(g.t, label+".impl")]
		g.fillIface(n, im, v, label)
	default:
		g.fill(n, v, label)
	}
}

func (g *valueGen) fillIface(n *Node, im *Node, v reflect.Value, label string) {
	iv := reflect.New(im.T).Elem()
	if im.Kind == KPtr {
		g.fillNonNil(im, iv, label)
	} else {
		g.fill(im, iv, label)
	}
	v.Set(iv)
}

func (g *valueGen) fillSlice(n *Node, v reflect.Value, label string) {
	cnt := g.drawLen(n.S, label, g.cfg.MaxElems)
	if n.Elem.Kind <= KFloat64 && !n.S.NoDup && !n.S.LexValid {
		if bl, ok := g.boundaryLen(n.S, label, false); ok {
			// element count at the capacity of a one-byte prefix (cheap fixed-width elements only)
			out := reflect.MakeSlice(n.T, bl, bl)
			for i := 0; i < bl; i++ {
				g.fill(n.Elem, out.Index(i), label+".be")
			}
			v.Set(out)
			return
		}
	}
	if cnt == 0 {
		if rapid.Bool().Draw(g.t, label+".nilslice") {
			v.Set(reflect.Zero(n.T))
		} else {
			v.Set(reflect.MakeSlice(n.T, 0, 0))
		}
		return
	}
	elems := make([]reflect.Value, 0, cnt)
	// must-occur / at-most-one constructions for interface slices
	if !g.free() && n.Elem.Kind == KIface && (len(n.S.MustOccur) > 0 || n.S.AtMostOne != 0) {
		var order []int
		used := map[int]bool{}
		for _, m := range n.S.MustOccur {
			for i, im := range n.Elem.Impls {
				c := im.Code
				if im.Kind == KPtr {
					c = im.Elem.Code
				}
				if c != nil && c.V == m && !used[i] {
					order = append(order, i)
					used[i] = true
				}
			}
		}
		if len(order) > cnt {
			cnt = len(order)
		}
		if n.S.AtMostOne != 0 && cnt > len(n.Elem.Impls) {
			cnt = len(n.Elem.Impls)
		}
		for len(order) < cnt {
			i := rapid.IntRange(0, len(n.Elem.Impls)-1).Draw(g.t, label+".impl")
			if n.S.AtMostOne != 0 {
				for used[i] {
					i = (i + 1) % len(n.Elem.Impls)
				}
			}
			used[i] = true
			order = append(order, i)
		}
		if n.S.Max != 0 && len(order) > n.S.Max || len(order) < n.S.Min {
			g.Labels["unsatisfiable_rules"] = true
		}
		perm := rapid.Permutation(order).Draw(g.t, label+".perm")
		for k, idx := range perm {
			ev := reflect.New(n.Elem.T).Elem()
			g.fillIface(n.Elem, n.Elem.Impls[idx], ev, label+".e")
			_ = k
			elems = append(elems, ev)
		}
	} else {
		for i := 0; i < cnt; i++ {
			ev := reflect.New(n.Elem.T).Elem()
			if g.free() && i > 0 && rapid.IntRange(0, 4).Draw(g.t, label+".dup") == 0 {
				ev.Set(elems[rapid.IntRange(0, i-1).Draw(g.t, label+".dupof")])
			} else {
				g.fill(n.Elem, ev, label+".e")
			}
			elems = append(elems, ev)
		}
	}
	if !g.free() {
		elems = g.normalise(n, elems)
	}
	out := reflect.MakeSlice(n.T, len(elems), len(elems))
	for i, ev := range elems {
		out.Index(i).Set(ev)
	}
	v.Set(out)
}

// normalise makes drawn elements satisfy NoDup / lexical-order-without-sorting rules.
func (g *valueGen) normalise(n *Node, elems []reflect.Value) []reflect.Value {
	if !n.S.NoDup && !n.S.LexValid {
		return elems
	}
	type pair struct {
		v reflect.Value
		b []byte
	}
	ps := make([]pair, 0, len(elems))
	for _, ev := range elems {
		enc := RefEncode(n.Elem, ev, false)
		if enc.Reject != "" {
			return elems
		}
		ps = append(ps, pair{ev, enc.B})
	}
	if n.S.NoDup {
		seen := map[string]bool{}
		kept := ps[:0]
		for _, p := range ps {
			if !seen[string(p.b)] {
				seen[string(p.b)] = true
				kept = append(kept, p)
			}
		}
		ps = kept
		if len(ps) < n.S.Min {
			g.Labels["unsatisfiable_rules"] = true
		}
	}
	if n.S.LexValid && !n.S.LexSort {
		sort.SliceStable(ps, func(i, j int) bool { return bytes.Compare(ps[i].b, ps[j].b) < 0 })
	}
	out := make([]reflect.Value, len(ps))
	for i, p := range ps {
		out[i] = p.v
	}

	return out
}

func (g *valueGen) fillMap(n *Node, v reflect.Value, label string) {
	cnt := g.drawLen(n.S, label, g.cfg.MaxElems)
	if cnt == 0 && rapid.Bool().Draw(g.t, label+".nilmap") {
		v.Set(reflect.Zero(n.T))
		return
	}
	m := reflect.MakeMapWithSize(n.T, cnt)
	for tries := 0; m.Len() < cnt && tries < cnt*4+4; tries++ {
		kv := reflect.New(n.Key.T).Elem()
		g.fill(n.Key, kv, label+".k")
		if m.MapIndex(kv).IsValid() {
			continue
		}
		ev := reflect.New(n.Elem.T).Elem()
		g.fill(n.Elem, ev, label+".v")
		m.SetMapIndex(kv, ev)
	}
	if m.Len() < n.S.Min && !g.free() {
		g.Labels["unsatisfiable_rules"] = true
	}
	v.Set(m)
}

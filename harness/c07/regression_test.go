package c07

import (
	"encoding/binary"
	"testing"

	"github.com/iotaledger/hive.go/kvstore"
	"github.com/iotaledger/hive.go/kvstore/mapdb"
)

// TestRegressionReleaseOnFreshObject replays the shrunk case of D7 without rapid:
// lifetime A hands out 0; a new object that never called Next calls Release; the stored mark must not
// fall back below 1 and the next lifetime must not hand out 0 again.
func TestRegressionReleaseOnFreshObject(t *testing.T) {
	store := mapdb.NewMapDB()
	a, _ := kvstore.NewSequence(store, seqKey, 3)
	first, err := a.Next()
	if err != nil || first != 0 {
		t.Fatalf("first Next = %d, %v", first, err)
	}
	// process A is abandoned; process B starts and shuts down cleanly without ever needing a number
	b, _ := kvstore.NewSequence(store, seqKey, 5)
	if err := b.Release(); err != nil {
		t.Fatalf("Release: %v", err)
	}
	raw, err := store.Get(seqKey)
	if err != nil {
		t.Fatalf("mark unreadable: %v", err)
	}
	if m := binary.BigEndian.Uint64(raw); m < 1 {
		t.Errorf("Release on an object without a lease rolled the stored mark back to %d although 0 was handed out", m)
	}
	c, _ := kvstore.NewSequence(store, seqKey, 1)
	again, err := c.Next()
	if err != nil {
		t.Fatalf("Next: %v", err)
	}
	if again <= first {
		t.Fatalf("number %d handed out twice (first lifetime returned %d, third lifetime returned %d)", again, first, again)
	}
}

// TestRegressionReleaseKeepsWorking pins the behaviour the fix must keep: a clean Release wastes nothing,
// also when it is repeated or followed by further Next calls on the same object.
func TestRegressionReleaseKeepsWorking(t *testing.T) {
	store := mapdb.NewMapDB()
	a, _ := kvstore.NewSequence(store, seqKey, 10)
	for want := uint64(0); want < 3; want++ {
		if n, err := a.Next(); err != nil || n != want {
			t.Fatalf("Next = %d, %v; want %d", n, err, want)
		}
	}
	for i := 0; i < 2; i++ {
		if err := a.Release(); err != nil {
			t.Fatalf("Release: %v", err)
		}
		raw, _ := store.Get(seqKey)
		if m := binary.BigEndian.Uint64(raw); m != 3 {
			t.Fatalf("mark after clean Release #%d = %d, want 3", i+1, m)
		}
	}
	if n, err := a.Next(); err != nil || n != 3 {
		t.Fatalf("Next after Release = %d, %v; want 3", n, err)
	}
	b, _ := kvstore.NewSequence(store, seqKey, 2)
	if n, err := b.Next(); err != nil || n != 13 {
		t.Fatalf("Next of the following lifetime = %d, %v; want 13 (3 + interval 10 of the abandoned lease)", n, err)
	}
}

package c13

import (
	"fmt"
	"strings"
	"testing"

	"pgregory.net/rapid"
	"verifharness/internal/ctl"
	"verifharness/internal/stats"
)

// ---------------------------------------------------------------------------------------------------------
// Sequential variant: one goroutine executes a drawn list of actions on one Variable / Event. Subscribing and
// unsubscribing also happens from INSIDE callbacks (nested actions), which is the deterministic stand-in for "a
// subscriber arrives / leaves while a writer is between setting the value and finishing its callbacks".
// Everything is exactly predictable from a model, so every subscriber's log is compared with the exact
// expected log after every top-level action.
// ---------------------------------------------------------------------------------------------------------

type nestedSpec struct {
	At     int    `json:"at"`     // runs inside the At-th callback (0-based) of the owning subscription
	Op     string `json:"op"`     // "sub" | "unsub" | "get"
	Target int    `json:"target"` // unsub: index into the list of subscriptions (mod len); never the owner itself
	Kind   string `json:"kind"`   // sub: subscription kind
	Cond   int    `json:"cond"`
}

type seqAction struct {
	Op     string       `json:"op"` // set | compute | default | trigger | sub | unsub
	Arg    int          `json:"arg"`
	Kind   string       `json:"kind,omitempty"` // sub: subscription kind
	Cond   int          `json:"cond,omitempty"`
	Nested []nestedSpec `json:"nested,omitempty"`
}

type seqProg struct {
	VarKind string      `json:"var_kind"`
	Actions []seqAction `json:"actions"`
}

func (a seqAction) String() string {
	switch a.Op {
	case "sub":
		s := fmt.Sprintf("sub %s", a.Kind)
		if a.Kind == subOnceCond {
			s += fmt.Sprintf("(new>=%d)", a.Cond)
		}
		for _, n := range a.Nested {
			switch n.Op {
			case "sub":
				s += fmt.Sprintf(" {cb%d: sub %s}", n.At, n.Kind)
			case "unsub":
				s += fmt.Sprintf(" {cb%d: unsub #%d}", n.At, n.Target)
			default:
				s += fmt.Sprintf(" {cb%d: get}", n.At)
			}
		}
		return s
	case "unsub":
		return fmt.Sprintf("unsub #%d", a.Arg)
	case "trigger":
		return "trigger"
	case "compute":
		return fmt.Sprintf("compute %+d", a.Arg)
	}
	return fmt.Sprintf("%s %d", a.Op, a.Arg)
}

func (p seqProg) strings() []string {
	out := []string{"kind " + p.VarKind}
	for _, a := range p.Actions {
		out = append(out, a.String())
	}
	return out
}

type verdict struct {
	Msg        string   // "" = held
	Trace      []string // what happened (for the replay file)
	NonTrivial bool
	Labels     []string
	Hang       bool
}

type seqSub struct {
	id         int
	kind       string
	cond       int
	nested     []nestedSpec
	unsub      func()
	active     bool // subscribed and unsubscribe not yet called
	fired      bool // once kinds: user callback has run
	busy       bool
	calls      int
	unsubStamp int64
	log        []cbRec
	expect     []pair
}

type seqRun struct {
	a      *adapter
	clock  ctl.Clock
	cur    int // model value
	subs   []*seqSub
	errs   []string
	trace  []string
	labels map[string]bool
	// statistics for the non-trivial rule
	nestedRan       int
	effectiveWrites int
	inWrite         bool
}

func (r *seqRun) failf(format string, args ...any) {
	r.errs = append(r.errs, fmt.Sprintf(format, args...))
}

func (r *seqRun) cb(s *seqSub) func(p, n int) {
	return func(p, n int) {
		in := r.clock.Tick()
		if s.busy {
			r.failf("sub #%d: callback entered while another callback of the same subscription is running", s.id)
		}
		s.busy = true
		idx := s.calls
		s.calls++
		s.log = append(s.log, cbRec{Prev: p, New: n, In: in})
		if s.unsubStamp != 0 && in > s.unsubStamp {
			r.failf("sub #%d: callback %s started after its unsubscribe call had returned", s.id, pair{p, n})
		}
		for _, ns := range s.nested {
			if ns.At == idx {
				r.runNested(s, ns)
			}
		}
		s.busy = false
		s.log[len(s.log)-1].Out = r.clock.Tick()
	}
}

func (r *seqRun) runNested(owner *seqSub, ns nestedSpec) {
	switch ns.Op {
	case "get":
		if g := r.a.get(); g != r.cur {
			r.failf("Get() inside a callback of sub #%d returned %d, variable holds %d", owner.id, g, r.cur)
		}
		r.nestedRan++
	case "sub":
		if ns.Kind == subTrigger && r.a.onTrigger == nil {
			return
		}
		r.trace = append(r.trace, fmt.Sprintf("  (inside cb of #%d) sub %s", owner.id, ns.Kind))
		r.subscribe(ns.Kind, ns.Cond, nil)
		r.nestedRan++
		if r.inWrite {
			r.labels["sub_inside_write_callback"] = true
		}
	case "unsub":
		if len(r.subs) == 0 {
			return
		}
		t := r.subs[ns.Target%len(r.subs)]
		// never from inside the subscription's own callback (self-deadlock by design), never one that is
		// still inside its OnUpdate call (its unsubscribe function does not exist yet)
		if t == owner || t.busy || !t.active || t.unsub == nil {
			r.labels["nested_unsub_skipped"] = true
			return
		}
		r.trace = append(r.trace, fmt.Sprintf("  (inside cb of #%d) unsub #%d", owner.id, t.id))
		r.unsubscribe(t)
		r.nestedRan++
		if r.inWrite {
			r.labels["unsub_inside_write_callback"] = true
		}
	}
}

func (r *seqRun) unsubscribe(s *seqSub) {
	s.active = false
	s.unsub()
	s.unsubStamp = r.clock.Tick()
}

func (r *seqRun) subscribe(kind string, cond int, nested []nestedSpec) {
	s := &seqSub{id: len(r.subs), kind: kind, cond: cond, nested: nested, active: true}
	r.subs = append(r.subs, s)
	v0 := r.cur
	// the state at subscription time
	switch {
	case isOnce(kind):
		if c := condFor(kind, cond); v0 != 0 && (c == nil || c(0, v0)) {
			s.expect = append(s.expect, pair{0, v0})
			s.fired = true
		}
	case kind == subUpdateInit || v0 != 0:
		s.expect = append(s.expect, pair{0, v0})
	}
	if v0 != 0 {
		r.labels["sub_at_nonzero"] = true
	}
	s.unsub = r.a.register(kind, cond, r.cb(s))
	if got := pairsOf(s.log); pairsStr(got) != pairsStr(s.expect) {
		r.failf("sub #%d (%s) registered while the value was %d: callbacks during registration %s, expected %s", s.id, kind, v0, pairsStr(got), pairsStr(s.expect))
	}
}

func (r *seqRun) write(op string, arg int) {
	old := r.cur
	nv := r.a.modelWrite(op, arg, old)
	type tgt struct {
		s      *seqSub
		before int
	}
	var targets []tgt
	for _, s := range r.subs {
		if s.active {
			targets = append(targets, tgt{s, len(s.log)})
		}
	}
	r.cur = nv
	r.inWrite = true
	var ret bool
	if op == "trigger" {
		ret = r.a.trigger()
		if ret != (old == 0) {
			r.failf("Trigger() returned %v with the event value %d before the call", ret, old)
		}
	} else {
		r.a.doWrite(op, arg)
	}
	r.inWrite = false
	if nv != old {
		r.effectiveWrites++
	}
	for _, t := range targets {
		s := t.s
		got := s.log[t.before:]
		want := nv != old
		if isOnce(s.kind) {
			c := condFor(s.kind, s.cond)
			want = want && !s.fired && (c == nil || c(old, nv))
		}
		switch {
		case s.active: // subscribed during the whole write: exactly the one change, exactly once
			if want {
				s.expect = append(s.expect, pair{old, nv})
				s.fired = true
			}
		default: // unsubscribed by a nested action during this write: the change at most once
			if want && len(got) == 1 && got[0].pair() == (pair{old, nv}) {
				s.expect = append(s.expect, pair{old, nv})
				s.fired = true
				r.labels["delivered_before_nested_unsub"] = true
			} else if want && len(got) == 0 {
				r.labels["suppressed_by_nested_unsub"] = true
			}
		}
	}
}

func (r *seqRun) checkAll(after string) {
	for _, s := range r.subs {
		if got := pairsOf(s.log); pairsStr(got) != pairsStr(s.expect) {
			r.failf("after %q: sub #%d (%s) saw %s, must have seen exactly %s", after, s.id, s.kind, pairsStr(got), pairsStr(s.expect))
		}
		for _, c := range s.log {
			if s.unsubStamp != 0 && c.In > s.unsubStamp {
				r.failf("after %q: sub #%d: callback %s started after unsubscribe returned", after, s.id, c.pair())
			}
		}
	}
	if g := r.a.get(); g != r.cur {
		r.failf("after %q: Get() = %d, model value %d", after, g, r.cur)
	}
}

func runVarSeq(p seqProg) verdict {
	r := &seqRun{labels: map[string]bool{}}
	r.a = newAdapter(p.VarKind, &r.clock)
	for _, act := range p.Actions {
		r.trace = append(r.trace, act.String())
		switch act.Op {
		case "sub":
			if act.Kind == subTrigger && r.a.onTrigger == nil {
				continue
			}
			r.subscribe(act.Kind, act.Cond, act.Nested)
		case "unsub":
			if len(r.subs) == 0 {
				continue
			}
			s := r.subs[act.Arg%len(r.subs)]
			if !s.active {
				continue
			}
			r.unsubscribe(s)
		case "trigger":
			if r.a.trigger == nil {
				continue
			}
			r.write(act.Op, act.Arg)
		default:
			r.write(act.Op, act.Arg)
		}
		r.checkAll(act.String())
		if len(r.errs) > 0 {
			break
		}
	}
	// final clause: the last reported value of every live OnUpdate subscription is the final value
	final := r.a.get()
	for _, s := range r.subs {
		if !s.active || isOnce(s.kind) {
			continue
		}
		if len(s.log) == 0 {
			if final != 0 {
				r.failf("final value %d but live sub #%d never got a callback", final, s.id)
			}
		} else if last := s.log[len(s.log)-1].New; last != final {
			r.failf("live sub #%d: last reported value %d, final value %d", s.id, last, final)
		}
	}
	v := verdict{Trace: r.trace}
	if len(r.errs) > 0 {
		v.Msg = strings.Join(r.errs, "; ")
	}
	// non-trivial: a subscription or unsubscription happened inside a writer's callback phase, or a subscriber
	// arrived after an effective write and saw a later one
	v.NonTrivial = r.labels["sub_inside_write_callback"] || r.labels["unsub_inside_write_callback"] ||
		(r.labels["sub_at_nonzero"] && r.effectiveWrites >= 2)
	for l := range r.labels {
		v.Labels = append(v.Labels, l)
	}
	v.Labels = append(v.Labels, "kind:"+p.VarKind)
	// leave nothing subscribed
	for _, s := range r.subs {
		if s.active && s.unsub != nil {
			s.unsub()
		}
	}
	return v
}

// ---------------------------------------------------------------------------------------------------------
// generator
// ---------------------------------------------------------------------------------------------------------

func genSubKind(t *rapid.T, varKind string, label string) string {
	kinds := []string{subUpdate, subUpdate, subUpdateInit, subOnce, subOnceCond}
	if varKind == kindEvent {
		kinds = append(kinds, subTrigger, subTrigger)
	}
	return rapid.SampledFrom(kinds).Draw(t, label)
}

func genSeqProg(t *rapid.T) seqProg {
	p := seqProg{VarKind: rapid.SampledFrom(varKinds).Draw(t, "varKind")}
	maxVal := 3
	if p.VarKind == kindEvent {
		maxVal = 1
	}
	ops := []string{"set", "set", "init", "compute", "default", "sub", "sub", "sub", "unsub"}
	if p.VarKind == kindEvent {
		ops = append(ops, "trigger", "trigger")
	}
	nestedGen := rapid.Custom(func(t *rapid.T) nestedSpec {
		ns := nestedSpec{At: rapid.IntRange(0, 3).Draw(t, "at"), Op: rapid.SampledFrom([]string{"sub", "unsub", "unsub", "get"}).Draw(t, "nop")}
		switch ns.Op {
		case "sub":
			ns.Kind = genSubKind(t, p.VarKind, "nSubKind")
			ns.Cond = rapid.IntRange(1, maxVal).Draw(t, "nCond")
		case "unsub":
			ns.Target = rapid.IntRange(0, 7).Draw(t, "target")
		}
		return ns
	})
	actGen := rapid.Custom(func(t *rapid.T) seqAction {
		a := seqAction{Op: rapid.SampledFrom(ops).Draw(t, "op")}
		switch a.Op {
		case "set", "init", "default":
			a.Arg = rapid.IntRange(0, maxVal).Draw(t, "v")
		case "compute":
			a.Arg = rapid.IntRange(-1, 2).Draw(t, "k")
		case "unsub":
			a.Arg = rapid.IntRange(0, 7).Draw(t, "idx")
		case "sub":
			a.Kind = genSubKind(t, p.VarKind, "subKind")
			if a.Kind == subOnceCond {
				a.Cond = rapid.IntRange(1, maxVal).Draw(t, "cond")
			}
			a.Nested = rapid.SliceOfN(nestedGen, 0, 2).Draw(t, "nested")
		}
		return a
	})
	p.Actions = rapid.SliceOfN(actGen, 1, 14).Draw(t, "actions")
	return p
}

const checkVarSeq = "variable_sequential"

func TestVariableSeq(t *testing.T) {
	stats.Rule(checkVarSeq, "rapid draws the object (Variable[int] without / with identity / with max transformation, Event) and 1-14 actions: Set/Compute/DefaultTo/Trigger with values 0..3 (repeats and the zero value on purpose), OnUpdate (with/without initial-zero flag) / OnUpdateOnce (with/without condition) / OnTrigger, unsubscribe; each subscription carries up to 2 nested actions executed inside its k-th callback (subscribe another consumer, unsubscribe ANOTHER subscription, Get). Oracle: exact per-subscriber expected log from a value model after every action. Non-trivial = a subscribe/unsubscribe ran inside a writer's callback phase, or a subscriber arrived at a non-zero value with >=2 effective writes. Distinct by action list.")
	rapid.Check(t, func(rt *rapid.T) {
		p := genSeqProg(rt)
		v := runVarSeq(p)
		key := strings.Join(p.strings(), "|")
		stats.Case(checkVarSeq, v.NonTrivial, key, func() any { return p.strings() }, v.Labels...)
		if v.Msg != "" {
			stats.Violation(checkVarSeq, map[string]any{"program": p, "readable": p.strings(), "trace": v.Trace, "problem": v.Msg})
			rt.Fatalf("%s\nprogram: %s", v.Msg, strings.Join(p.strings(), "; "))
		}
	})
}

package c12

import (
	"fmt"
	"runtime/debug"
	"sort"
	"strings"

	"pgregory.net/rapid"
	"verifharness/internal/stats"
)

// failer is the common subset of *rapid.T and *testing.T the histories need to fail.
type failer interface {
	Fatalf(format string, args ...any)
	Logf(format string, args ...any)
	Helper()
}

// hist records one generated operation history of one container: the drawn configuration, the
// operations in order (rendered with their observed results), and the labels of the interesting
// classes the history touched. It is the replay payload and the stats key.
type hist struct {
	check  string
	config string
	ops    []string
	labels map[string]struct{}
}

func newHist(check, config string) *hist {
	return &hist{check: check, config: config, labels: map[string]struct{}{}}
}

// op appends a rendered operation to the history.
func (h *hist) op(format string, args ...any) {
	h.ops = append(h.ops, fmt.Sprintf(format, args...))
}

// label marks an interesting class as touched by this history (counted once per history).
func (h *hist) label(l string) { h.labels[l] = struct{}{} }

func (h *hist) has(l string) bool { _, ok := h.labels[l]; return ok }

// fail writes the replay case and fails the test. The last operation in ops is the offending one.
func (h *hist) fail(t failer, format string, args ...any) {
	t.Helper()
	msg := fmt.Sprintf(format, args...)
	stats.Violation(h.check, map[string]any{"config": h.config, "ops": append([]string(nil), h.ops...), "problem": msg})
	t.Fatalf("%s [%s] after ops %v: %s", h.check, h.config, h.ops, msg)
}

// guard is deferred by every history: a panic inside the container under test (index out of range, nil
// dereference, ...) is turned into an ordinary failure that carries the operation list, so the replay file is
// self-contained. rapid's own control-flow panics (Fatalf, Skip, end of data) are passed through untouched.
func (h *hist) guard(t failer) {
	r := recover()
	if r == nil {
		return
	}
	if strings.HasPrefix(fmt.Sprintf("%T", r), "rapid.") || strings.HasPrefix(fmt.Sprintf("%T", r), "*rapid.") {
		panic(r)
	}
	// the stack goes to the log only: failure messages must be identical when rapid re-runs a case
	t.Logf("panic %v\n%s", r, debug.Stack())
	h.fail(t, "the container panicked during or right after the last listed operation: %v", r)
}

// done reports the finished history to the case accounting.
func (h *hist) done(nontrivial bool) {
	ls := make([]string, 0, len(h.labels))
	for l := range h.labels {
		ls = append(ls, l)
	}
	sort.Strings(ls)
	stats.Case(h.check, nontrivial, h.config+"|"+strings.Join(h.ops, ";"), func() any {
		return map[string]any{"config": h.config, "ops": append([]string(nil), h.ops...)}
	}, ls...)
}

// weighted builds an action table for rapid's Repeat in which an action of weight w appears w times
// (Repeat picks uniformly among the keys).
type weighted map[string]func(*rapid.T)

func (w weighted) add(name string, weight int, f func(*rapid.T)) {
	for i := 0; i < weight; i++ {
		k := name
		if i > 0 {
			k = fmt.Sprintf("%s#%d", name, i)
		}
		w[k] = f
	}
}

func sortedInts(in []int) []int {
	out := append([]int(nil), in...)
	sort.Ints(out)
	return out
}

func sortedStrings(in []string) []string {
	out := append([]string(nil), in...)
	sort.Strings(out)
	return out
}

func equalInts(a, b []int) bool {
	if len(a) != len(b) {
		return false
	}
	for i := range a {
		if a[i] != b[i] {
			return false
		}
	}
	return true
}

func equalStrings(a, b []string) bool {
	if len(a) != len(b) {
		return false
	}
	for i := range a {
		if a[i] != b[i] {
			return false
		}
	}
	return true
}

func mapKeys(m map[int]int) []int {
	out := make([]int, 0, len(m))
	for k := range m {
		out = append(out, k)
	}
	sort.Ints(out)
	return out
}

func mapValues(m map[int]int) []int {
	out := make([]int, 0, len(m))
	for _, v := range m {
		out = append(out, v)
	}
	sort.Ints(out)
	return out
}

func equalMaps(a, b map[int]int) bool {
	if len(a) != len(b) {
		return false
	}
	for k, v := range a {
		if w, ok := b[k]; !ok || w != v {
			return false
		}
	}
	return true
}

// shrinkOpts is the drawn shrinking configuration shared by ShrinkingMap and RandomMap.
type shrinkOpts struct {
	defaults bool
	ratio    float32
	count    int
}

func drawShrinkOpts(t *rapid.T) shrinkOpts {
	if rapid.IntRange(0, 9).Draw(t, "defaultOpts") == 0 {
		return shrinkOpts{defaults: true, ratio: 10, count: 100}
	}
	return shrinkOpts{
		ratio: rapid.SampledFrom([]float32{0, 0, 0.5, 0.5, 1, 1, 10}).Draw(t, "ratio"),
		count: rapid.SampledFrom([]int{0, 1, 1, 3, 3, 100}).Draw(t, "count"),
	}
}

func (o shrinkOpts) String() string {
	if o.defaults {
		return "defaults"
	}
	return fmt.Sprintf("ratio=%v,count=%d", o.ratio, o.count)
}

// shrinkTracker mirrors the documented shrink rule (ratio AND count thresholds over the deletions
// since the last rebuild) only to LABEL histories in which an automatic shrink must have happened;
// it never takes part in a verdict.
type shrinkTracker struct {
	o       shrinkOpts
	deleted int
	shrinks int
}

func (s *shrinkTracker) onDelete(sizeAfter int) bool {
	s.deleted++
	if s.o.ratio == 0 && s.o.count == 0 {
		return false
	}
	if s.o.ratio != 0 {
		if sizeAfter == 0 || float32(s.deleted)/float32(sizeAfter) < s.o.ratio {
			return false
		}
	}
	if s.o.count != 0 && s.deleted < s.o.count {
		return false
	}
	s.deleted = 0
	s.shrinks++
	return true
}

func (s *shrinkTracker) reset() { s.deleted = 0 }

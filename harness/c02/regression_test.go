package c02

import (
	"bytes"
	"context"
	"math/big"
	"runtime"
	"strings"
	"testing"
	"time"

	"github.com/iotaledger/hive.go/serializer/v2"
	"github.com/iotaledger/hive.go/serializer/v2/serix"
	"github.com/iotaledger/hive.go/serializer/v2/stream"
)

// Plain regression checks (no generator) for the repaired defects of this property.

func TestRegressionVariableByteSliceAllocation(t *testing.T) {
	src := []byte{0xff, 0xff, 0xff, 0x3f, 1, 2} // denotes 2^30-1 bytes, 2 available
	var out []byte
	alloc := measure(func() {
		_, err := serializer.NewDeserializer(src).ReadVariableByteSlice(&out, serializer.SeriLengthPrefixTypeAsUint32, func(err error) error { return err }, 0, 0).Done()
		if err == nil {
			t.Fatal("expected an error")
		}
	})
	if alloc > 1<<20 {
		t.Fatalf("ReadVariableByteSlice allocated %d bytes for a 6-byte input", alloc)
	}
}

func TestRegressionStreamHostilePrefix(t *testing.T) {
	in := []byte{0, 0, 0, 0, 0, 0, 0, 0x80, 1, 2, 3}
	if p := catch(func() { _, _ = stream.ReadBytesWithSize(bytes.NewReader(in), serializer.SeriLengthPrefixTypeAsUint64) }); p != nil {
		t.Fatalf("ReadBytesWithSize panicked: %v", p)
	}
	if n, err := stream.PeekSize(bytes.NewReader(in), serializer.SeriLengthPrefixTypeAsUint64); err == nil {
		t.Fatalf("PeekSize accepted a prefix of 2^63 and returned %d", n)
	}
	alloc := measure(func() {
		_, _ = stream.ReadBytesWithSize(bytes.NewReader([]byte{0xff, 0xff, 0xff, 0x3f, 1}), serializer.SeriLengthPrefixTypeAsUint32)
	})
	if alloc > 1<<20 {
		t.Fatalf("ReadBytesWithSize allocated %d bytes for a 5-byte input", alloc)
	}
}

func TestRegressionJSONWrongShape(t *testing.T) {
	type s struct {
		A []int8   `serix:",lenPrefix=uint8"`
		B uint8    `serix:""`
		C bool     `serix:""`
		D int64    `serix:""`
		E [4]byte  `serix:""`
		F [2]uint8 `serix:",lenPrefix=uint8"`
	}
	api := serix.NewAPI()
	for _, doc := range []string{`{"a":null,"b":1,"c":true,"d":"1","e":"0x01020304","f":"0x0102"}`, `{"a":[1],"b":"x","c":true,"d":"1","e":"0x01020304","f":"0x0102"}`,
		`{"a":[1],"b":1,"c":0,"d":"1","e":"0x01020304","f":"0x0102"}`, `{"a":[1],"b":1,"c":true,"d":1,"e":"0x01020304","f":"0x0102"}`,
		`{"a":[1],"b":1,"c":true,"d":"1","e":{},"f":"0x0102"}`, `{"a":[1],"b":1,"c":true,"d":"1","e":"0x01020304","f":7}`, `{"a":{"x":1},"b":1,"c":true,"d":"1","e":"0x01020304","f":"0x0102"}`} {
		if p := catch(func() { _ = api.JSONDecode(context.Background(), []byte(doc), &s{}) }); p != nil {
			t.Fatalf("JSONDecode(%s) panicked: %v", doc, p)
		}
	}
}

type regU64Prefix struct {
	S string   `serix:",lenPrefix=uint64"`
	L []uint16 `serix:",lenPrefix=uint64"`
}

// serix offers the uint64 length prefix, but Serializer/Deserializer had no case for it: Decode panicked for every input.
func TestRegressionUint64LengthPrefix(t *testing.T) {
	api := serix.NewAPI()
	ctx := context.Background()
	in := &regU64Prefix{S: "ab", L: []uint16{1, 2, 3}}
	b, err := api.Encode(ctx, in)
	if err != nil {
		t.Fatalf("Encode with lenPrefix=uint64: %v", err)
	}
	out := &regU64Prefix{}
	if n, err := api.Decode(ctx, b, out); err != nil || n != len(b) || out.S != "ab" || len(out.L) != 3 {
		t.Fatalf("Decode of %x: n=%d err=%v value=%+v", b, n, err, out)
	}
	for _, hostile := range [][]byte{{}, {1, 2, 3}, {0xff, 0xff, 0xff, 0xff, 0xff, 0xff, 0xff, 0xff}, {0, 0, 0, 0, 0, 0, 0, 0x80, 1}, {0, 0, 0, 0, 0, 0, 0, 0x40}} {
		if p := catch(func() { _, _ = api.Decode(ctx, hostile, &regU64Prefix{}) }); p != nil {
			t.Fatalf("Decode of %x panicked: %v", hostile, p)
		}
	}
}

type regKey interface{ regKey() }
type regKeyPlain struct {
	V uint8 `serix:""`
}
type regKeySlice struct {
	L []byte `serix:",lenPrefix=uint8"`
}

func (regKeyPlain) regKey() {}
func (regKeySlice) regKey() {}

type regIfaceKeyMap struct {
	M map[regKey]uint8 `serix:",lenPrefix=uint8"`
}

// the type code in the input selects an implementation of the key interface that cannot be hashed: MapIndex panicked.
func TestRegressionUnhashableInterfaceMapKey(t *testing.T) {
	api := serix.NewAPI()
	if err := api.RegisterTypeSettings(regKeyPlain{}, serix.TypeSettings{}.WithObjectType(uint8(0))); err != nil {
		t.Fatal(err)
	}
	if err := api.RegisterTypeSettings(regKeySlice{}, serix.TypeSettings{}.WithObjectType(uint8(1))); err != nil {
		t.Fatal(err)
	}
	if err := api.RegisterInterfaceObjects((*regKey)(nil), regKeyPlain{}, regKeySlice{}); err != nil {
		t.Fatal(err)
	}
	var err error
	if p := catch(func() { _, err = api.Decode(context.Background(), []byte{1, 1, 1, 0xaa, 9}, &regIfaceKeyMap{}) }); p != nil {
		t.Fatalf("Decode panicked: %v", p)
	}
	if err == nil {
		t.Fatal("Decode accepted a map entry whose key cannot be a map key")
	}
}

type regNode struct {
	Children []*regNode `serix:",lenPrefix=uint8"`
}

// one input byte per nesting level of a recursive type: two million levels ended in a fatal stack overflow.
func TestRegressionDeepNestingIsRefused(t *testing.T) {
	api := serix.NewAPI()
	ctx := context.Background()
	shallow := append(bytes.Repeat([]byte{1}, 100), 0)
	if n, err := api.Decode(ctx, shallow, &regNode{}); err != nil || n != len(shallow) {
		t.Fatalf("100 nesting levels: n=%d err=%v", n, err)
	}
	deep := append(bytes.Repeat([]byte{1}, 2_000_000), 0)
	if _, err := api.Decode(ctx, deep, &regNode{}); err == nil {
		t.Fatal("two million nesting levels were decoded")
	}
}

// Decode with a *big.Int as the destination itself panicked ("Addr of unaddressable value") for every input.
func TestRegressionDecodeIntoBigInt(t *testing.T) {
	api := serix.NewAPI()
	ctx := context.Background()
	want := new(big.Int).Lsh(big.NewInt(77), 200)
	b, err := api.Encode(ctx, want)
	if err != nil {
		t.Fatal(err)
	}
	got := new(big.Int)
	var n int
	if p := catch(func() { n, err = api.Decode(ctx, b, got) }); p != nil {
		t.Fatalf("Decode into new(big.Int) panicked: %v", p)
	}
	if err != nil || n != len(b) || got.Cmp(want) != 0 {
		t.Fatalf("Decode into new(big.Int): n=%d err=%v got %v want %v", n, err, got, want)
	}
	if p := catch(func() { _, err = api.Decode(ctx, []byte{1, 2}, new(big.Int)) }); p != nil || err == nil {
		t.Fatalf("Decode of a short input into new(big.Int): panic=%v err=%v", p, err)
	}
}

type regJSONNode struct {
	Child *regJSONNode `serix:",optional"`
}

// the JSON twin (found by an independent auditor, third round): the map form had no nesting limit, rejecting a document
// nested a few thousand levels cost quadratic time and memory (100 kB: 4 GB, 35 s), and a map nested a million levels
// handed to MapDecode directly ended in a fatal stack overflow.
func TestRegressionDeepJSONNestingIsBounded(t *testing.T) {
	api := serix.NewAPI()
	ctx := context.Background()
	doc := func(levels int) []byte {
		return []byte(strings.Repeat(`{"child":`, levels) + "{}" + strings.Repeat("}", levels))
	}
	if err := api.JSONDecode(ctx, doc(100), &regJSONNode{}); err != nil {
		t.Fatalf("100 nesting levels: %v", err)
	}
	var ms1, ms2 runtime.MemStats
	runtime.ReadMemStats(&ms1)
	start := time.Now()
	err := api.JSONDecode(ctx, doc(9000), &regJSONNode{}) // ~100 kB, below encoding/json's own limit of 10000 levels
	runtime.ReadMemStats(&ms2)
	if err == nil {
		t.Fatal("9000 nesting levels were decoded")
	}
	if alloc := ms2.TotalAlloc - ms1.TotalAlloc; alloc > 256<<20 {
		t.Fatalf("refusing a 100 kB document allocated %d MiB", alloc>>20)
	}
	t.Logf("refusing 9000 levels took %v", time.Since(start))
	// a map that does not come from encoding/json
	var nested any = map[string]any{}
	for i := 0; i < 1_500_000; i++ {
		nested = map[string]any{"child": nested}
	}
	if err := api.MapDecode(ctx, nested.(map[string]any), &regJSONNode{}); err == nil {
		t.Fatal("1.5 million nesting levels were decoded")
	}
}

type regCoded struct {
	A uint8 `serix:""`
}

// MapDecode formatted the raw value under the "type" key into its error message (%d): fmt walks nested slices without a
// limit, a value nested a million levels ended in a fatal stack overflow (found by an independent auditor).
func TestRegressionMapDecodeTypeKeyOfWrongShape(t *testing.T) {
	api := serix.NewAPI()
	if err := api.RegisterTypeSettings(regCoded{}, serix.TypeSettings{}.WithObjectType(uint8(3))); err != nil {
		t.Fatal(err)
	}
	var nested any = []any{}
	for i := 0; i < 1_200_000; i++ {
		nested = []any{nested}
	}
	if err := api.MapDecode(context.Background(), map[string]any{"type": nested, "a": float64(1)}, &regCoded{}); err == nil {
		t.Fatal("a document whose type key holds a nested array was decoded")
	}
}

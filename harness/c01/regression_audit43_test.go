// Demonstration of an independent auditor (sixteenth round), kept as a regression test; see known_findings.json.
package c01

import (
	"context"
	"testing"

	"github.com/iotaledger/hive.go/serializer/v2/serix"
)

type hunt43ID [4]byte

// a document whose Ref points at its own ID (the first field: it shares its address with the struct).
type hunt43Doc struct {
	ID  hunt43ID  `serix:"id"`
	Ref *hunt43ID `serix:"ref"`
}

// Repair 79ae929 recognises "the byte array that is the object of the call" by comparing addresses only. The first
// field of a struct has the address of the struct: a pointer field that points at it is taken for the object of the
// call, is written with the settings of the struct FIELD (key "ref" inside the typed object instead of "data") and can
// not be read back - the decoder allocates a fresh array and uses the registered settings. No call-level settings are
// involved at all; before the repair the value round-tripped.
func TestRegressionAudit43_43PointerToFirstFieldTakenForCallObject(t *testing.T) {
	api := serix.NewAPI()
	ctx := context.Background()
	if err := api.RegisterTypeSettings(hunt43ID{}, serix.TypeSettings{}.WithObjectType(uint8(3))); err != nil {
		t.Fatal(err)
	}

	// reference: the same content with Ref pointing to a separate array round-trips
	o := &hunt43Doc{ID: hunt43ID{1, 2, 3, 4}, Ref: &hunt43ID{1, 2, 3, 4}}
	jo, err := api.JSONEncode(ctx, o)
	if err != nil {
		t.Fatal(err)
	}
	o2 := &hunt43Doc{}
	if err := api.JSONDecode(ctx, jo, o2); err != nil || o2.ID != o.ID || o2.Ref == nil || *o2.Ref != *o.Ref {
		t.Fatalf("reference round trip: %v %+v", err, o2)
	}

	s := &hunt43Doc{ID: hunt43ID{1, 2, 3, 4}}
	s.Ref = &s.ID

	// binary form: fine
	b, err := api.Encode(ctx, s)
	if err != nil {
		t.Fatal(err)
	}
	sb := &hunt43Doc{}
	if _, err := api.Decode(ctx, b, sb); err != nil || sb.ID != s.ID || sb.Ref == nil || *sb.Ref != *s.Ref {
		t.Fatalf("binary round trip: %v %+v", err, sb)
	}

	j, err := api.JSONEncode(ctx, s)
	if err != nil {
		t.Fatal(err)
	}
	t.Logf("Ref -> own ID : %s", j)
	t.Logf("Ref -> copy   : %s", jo)
	if string(j) != string(jo) {
		t.Errorf("equal values (same ID, same *Ref) are written differently depending on where Ref points")
	}
	s2 := &hunt43Doc{}
	if err := api.JSONDecode(ctx, j, s2); err != nil {
		t.Fatalf("JSONDecode of JSONEncode's own output failed: %v", err)
	}
	if s2.ID != s.ID || s2.Ref == nil || *s2.Ref != *s.Ref {
		t.Fatalf("mismatch %+v", s2)
	}
}

package c16

// Executor for generated WorkerPool programs.
//
// A program is a pool layout (stand-alone pools or a Group tree), and a list of steps the controller
// executes one after the other: submit a task (tasks log start/end stamps from a logical clock, may
// block until the controller releases them and may submit further tasks, also into other pools),
// release a held task, Shutdown, ShutdownComplete.Wait, restart (Start), PendingTasksCounter.WaitIsZero,
// Group.WaitChildren / WaitParents / Shutdown, and "hooked" submits: a Submit that is parked at the
// verif yield point between the running-check and increasePendingTasks/Queue.Push while Shutdown
// (and optionally ShutdownComplete.Wait or Start) runs.
//
// Every blocking call is made only when it must terminate by construction (all controller-held
// tasks it can depend on are released first) and is bounded by ctl.HangTimeout; expiry is a violation.

import (
	"fmt"
	"strings"
	"sync"
	"sync/atomic"
	"time"

	"github.com/iotaledger/hive.go/runtime/workerpool"
	"verifharness/internal/ctl"
)

type taskSpec struct {
	ID       int        `json:"id"`
	Pool     int        `json:"pool"`
	Held     bool       `json:"held,omitempty"`
	Children []taskSpec `json:"children,omitempty"`
}

func (t taskSpec) String() string {
	s := fmt.Sprintf("t%d@p%d", t.ID, t.Pool)
	if t.Held {
		s += "[held]"
	}
	if len(t.Children) > 0 {
		var cs []string
		for _, c := range t.Children {
			cs = append(cs, c.String())
		}
		s += "{" + strings.Join(cs, " ") + "}"
	}
	return s
}

type step struct {
	Kind  string    `json:"kind"` // submit release shutdown waitShutdown restart waitZero waitChildren waitParents groupShutdown hooked
	Pool  int       `json:"pool"`
	Group int       `json:"group"`
	Task  *taskSpec `json:"task,omitempty"`
	Rel   int       `json:"release,omitempty"`
	Then  string    `json:"then,omitempty"` // hooked: shutdown | shutdown+wait | shutdown+start
}

func (s step) String() string {
	switch s.Kind {
	case "submit":
		return "submit " + s.Task.String()
	case "hooked":
		return fmt.Sprintf("hooked-submit %s || %s(p%d)", s.Task, s.Then, s.Pool)
	case "release":
		return fmt.Sprintf("release t%d", s.Rel)
	case "waitChildren", "waitParents", "groupShutdown":
		return fmt.Sprintf("%s g%d", s.Kind, s.Group)
	}
	return fmt.Sprintf("%s p%d", s.Kind, s.Pool)
}

type poolSpec struct {
	Group   int  `json:"group"` // -1 = stand-alone pool (workerpool.New), else created by Group.CreatePool
	Workers int  `json:"workers"`
	Cancel  bool `json:"cancel_on_shutdown"`
}

type program struct {
	Groups     []int      `json:"group_parents"` // parent of each group, -1 = root; empty = no groups
	Pools      []poolSpec `json:"pools"`
	Attributed bool       `json:"attributed"` // all Submit calls serialised by the harness so that each counter increment is attributed to its Submit
	Steps      []step     `json:"steps"`
}

func (p program) stepStrings() []string {
	out := make([]string, len(p.Steps))
	for i, s := range p.Steps {
		out[i] = s.String()
	}
	return out
}

func (p program) key() string {
	return fmt.Sprintf("%v|%v|%v|%s", p.Groups, p.Pools, p.Attributed, strings.Join(p.stepStrings(), ";"))
}

func (p program) sample() any {
	return map[string]any{"group_parents": p.Groups, "pools": p.Pools, "attributed": p.Attributed, "steps": p.stepStrings()}
}

// ---------------------------------------------------------------------------------------------
// hook plumbing

type armInfo struct {
	wp      *workerpool.WorkerPool
	taken   atomic.Bool
	parked  chan struct{}
	release chan struct{}
}

var hookState atomic.Pointer[armInfo]

func init() {
	workerpool.VerifHookSubmit = func(w *workerpool.WorkerPool) {
		a := hookState.Load()
		if a == nil || a.wp != w || !a.taken.CompareAndSwap(false, true) {
			return
		}
		close(a.parked)
		<-a.release
	}
}

// ---------------------------------------------------------------------------------------------

type taskRT struct {
	spec       taskSpec
	parent     *taskRT
	children   []*taskRT
	accepted   atomic.Int32 // attributed mode: 1 accepted, 2 rejected
	expect     int          // controller submits: 1 must be accepted, 2 must be rejected
	submitEnd  atomic.Int64
	starts     atomic.Int32
	startStamp atomic.Int64
	endStamp   atomic.Int64
	release    chan struct{}
	released   bool
}

type poolRT struct {
	spec         poolSpec
	name         string
	wp           *workerpool.WorkerPool
	inc, dec     atomic.Int64
	started      atomic.Int64
	ended        atomic.Int64
	quiesced     atomic.Bool // ShutdownComplete.Wait returned and no restart since
	running      bool        // controller's model
	everShutdown bool
}

type result struct {
	Kind, Violation string
	Trace           []string
	ShutdownBusy    int // Shutdown invoked while >=1 task was queued or running
	Hooked          int
	HookParked      int
	Restarts        int
	Cancelled       int64
	Rejected        int
	Goroutines      string // goroutine dump taken when a hang was detected
}

type run struct {
	prog     program
	clock    ctl.Clock
	pools    []*poolRT
	groups   []*workerpool.Group
	tasks    map[int]*taskRT
	submitMu sync.Mutex

	mu  sync.Mutex
	res result
}

func (r *run) trace(f string, a ...any) {
	r.mu.Lock()
	defer r.mu.Unlock()
	if len(r.res.Trace) < 300 {
		r.res.Trace = append(r.res.Trace, fmt.Sprintf(f, a...))
	}
}

func (r *run) fail(kind, f string, a ...any) {
	r.mu.Lock()
	defer r.mu.Unlock()
	if r.res.Kind == "" {
		r.res.Kind, r.res.Violation = kind, fmt.Sprintf(f, a...)
		if kind == "hang" {
			r.res.Goroutines = ctl.Dump()
		}
		if len(r.res.Trace) < 310 {
			r.res.Trace = append(r.res.Trace, "VIOLATION "+kind+": "+r.res.Violation)
		}
	}
}

func (r *run) failed() bool {
	r.mu.Lock()
	defer r.mu.Unlock()
	return r.res.Kind != ""
}

func (r *run) register(spec taskSpec, parent *taskRT) *taskRT {
	t := &taskRT{spec: spec, parent: parent, release: make(chan struct{})}
	r.tasks[spec.ID] = t
	for _, c := range spec.Children {
		t.children = append(t.children, r.register(c, t))
	}
	return t
}

func (r *run) body(t *taskRT) {
	p := r.pools[t.spec.Pool]
	if n := t.starts.Add(1); n > 1 {
		r.fail("ran_twice", "task %s was run %d times", t.spec, n)
	}
	t.startStamp.Store(r.clock.Tick())
	p.started.Add(1)
	if p.quiesced.Load() {
		r.fail("ran_after_shutdown_complete", "task %s started in pool p%d after Shutdown + ShutdownComplete.Wait had returned (no restart since)", t.spec, t.spec.Pool)
	}
	if t.spec.Held {
		<-t.release
	}
	for _, c := range t.children {
		r.submit(c)
	}
	t.endStamp.Store(r.clock.Tick())
	p.ended.Add(1)
}

// submit wraps WorkerPool.Submit. In attributed mode all Submit calls of the run are serialised so that
// the increments of the pool's counter seen during the call belong to it: accepted <=> counter rose.
func (r *run) submit(t *taskRT) {
	p := r.pools[t.spec.Pool]
	if r.prog.Attributed {
		r.submitMu.Lock()
	}
	before := p.inc.Load()
	p.wp.Submit(func() { r.body(t) })
	delta := p.inc.Load() - before
	if r.prog.Attributed {
		switch delta {
		case 0:
			t.accepted.Store(2)
		case 1:
			t.accepted.Store(1)
		default:
			r.fail("counter", "one Submit of %s raised the pending-task counter of p%d by %d", t.spec, t.spec.Pool, delta)
		}
		r.submitMu.Unlock()
	}
	t.submitEnd.Store(r.clock.Tick())
}

func (r *run) within(what string, f func()) bool {
	if withinHang(f) {
		return true
	}
	r.fail("hang", "%s did not return within %s although every controller-held task it can depend on had been released; %s", what, ctl.HangTimeout, r.describe())
	return false
}

func (r *run) describe() string {
	out := make(chan string, 1)
	go func() {
		var parts []string
		for i, p := range r.pools {
			parts = append(parts, fmt.Sprintf("p%d{counter=%d accepted=%d finished=%d started=%d ended=%d queue=%d}", i, p.wp.PendingTasksCounter.Get(), p.inc.Load(), p.dec.Load(), p.started.Load(), p.ended.Load(), p.wp.Queue.Size()))
		}
		out <- strings.Join(parts, " ")
	}()
	select {
	case s := <-out:
		return s
	case <-time.After(time.Second):
		return "(pool state not readable: counter/queue locked)"
	}
}

// poolsBelow returns the indices of all pools below group g (transitively).
func (r *run) poolsBelow(g int) map[int]bool {
	below := map[int]bool{g: true}
	for changed := true; changed; {
		changed = false
		for i, parent := range r.prog.Groups {
			if parent >= 0 && below[parent] && !below[i] {
				below[i] = true
				changed = true
			}
		}
	}
	out := map[int]bool{}
	for i, p := range r.prog.Pools {
		if p.Group >= 0 && below[p.Group] {
			out[i] = true
		}
	}
	return out
}

func (r *run) rootOf(g int) int {
	for r.prog.Groups[g] >= 0 {
		g = r.prog.Groups[g]
	}
	return g
}

func (r *run) releaseIn(pset map[int]bool) {
	for _, t := range r.tasks {
		if pset[t.spec.Pool] && !t.released {
			t.released = true
			close(t.release)
		}
	}
}

func (r *run) allPools() map[int]bool {
	m := map[int]bool{}
	for i := range r.pools {
		m[i] = true
	}
	return m
}

func (r *run) knownAccepted(t *taskRT) bool {
	if r.prog.Attributed {
		return t.accepted.Load() == 1
	}
	return t.expect == 1
}

// checkWaitReturn: a wait on the pools in pset (WaitIsZero of one pool, WaitChildren of a group) was
// called at stamp call and returned at stamp ret. Every task of these pools that was accepted before
// the call - and, transitively, every accepted task such a task submitted into these pools, because
// its counter increment precedes its parent's decrement - must have finished before the return,
// unless it may have been cancelled (cancel-on-shutdown pool on which Shutdown was invoked).
func (r *run) checkWaitReturn(what string, pset map[int]bool, call, ret int64) {
	var work []*taskRT
	seen := map[int]bool{}
	for _, t := range r.tasks {
		if se := t.submitEnd.Load(); pset[t.spec.Pool] && r.knownAccepted(t) && se != 0 && se < call {
			work = append(work, t)
			seen[t.spec.ID] = true
		}
	}
	for len(work) > 0 {
		t := work[0]
		work = work[1:]
		p := r.pools[t.spec.Pool]
		mayBeCancelled := p.spec.Cancel && p.everShutdown
		if es := t.endStamp.Load(); !mayBeCancelled && (es == 0 || es > ret) {
			state := "has not finished"
			if t.startStamp.Load() == 0 {
				state = "has not even started"
			}
			r.fail("wait_returned_early", "%s returned although task %s, accepted by pool p%d before the call (or submitted by such a task), %s; %s", what, t.spec, t.spec.Pool, state, r.describe())
			return
		}
		if t.endStamp.Load() == 0 {
			continue // cancelled: its children were never submitted
		}
		for _, c := range t.children {
			if pset[c.spec.Pool] && !seen[c.spec.ID] && r.prog.Attributed && c.accepted.Load() == 1 {
				seen[c.spec.ID] = true
				work = append(work, c)
			}
		}
	}
}

func (r *run) doShutdown(i int) bool {
	p := r.pools[i]
	if p.running && p.inc.Load()-p.dec.Load() > 0 {
		r.res.ShutdownBusy++
	}
	if !r.within(fmt.Sprintf("p%d.Shutdown()", i), func() { p.wp.Shutdown() }) {
		return false
	}
	p.running = false
	p.everShutdown = true
	return true
}

func (r *run) doWaitShutdown(i int) bool {
	p := r.pools[i]
	r.releaseIn(map[int]bool{i: true})
	if !r.within(fmt.Sprintf("p%d.ShutdownComplete.Wait() after Shutdown()", i), p.wp.ShutdownComplete.Wait) {
		return false
	}
	p.quiesced.Store(true)
	if s, e := p.started.Load(), p.ended.Load(); s != e {
		r.fail("running_after_shutdown_complete", "p%d: ShutdownComplete.Wait returned while %d task(s) were still running", i, s-e)
		return false
	}
	return true
}

func (r *run) execute() result {
	prog := r.prog
	// build layout
	r.groups = make([]*workerpool.Group, len(prog.Groups))
	for g, parent := range prog.Groups {
		if parent < 0 {
			r.groups[g] = workerpool.NewGroup(fmt.Sprintf("g%d", g))
		} else {
			r.groups[g] = r.groups[parent].CreateGroup(fmt.Sprintf("g%d", g))
		}
	}
	for i, ps := range prog.Pools {
		p := &poolRT{spec: ps, name: fmt.Sprintf("p%d", i), running: true}
		opts := workerpool.WithWorkerCount(ps.Workers)
		if ps.Group < 0 {
			p.wp = workerpool.New(p.name, opts, workerpool.WithCancelPendingTasksOnShutdown(ps.Cancel)).Start()
		} else {
			p.wp = r.groups[ps.Group].CreatePool(p.name, opts, workerpool.WithCancelPendingTasksOnShutdown(ps.Cancel))
		}
		p.wp.PendingTasksCounter.Subscribe(func(oldValue, newValue int) {
			if newValue > oldValue {
				p.inc.Add(int64(newValue - oldValue))
			} else {
				p.dec.Add(int64(oldValue - newValue))
			}
		})
		r.pools = append(r.pools, p)
	}
	r.tasks = map[int]*taskRT{}
	for _, s := range prog.Steps {
		if s.Task != nil {
			r.register(*s.Task, nil)
		}
	}
	groupShut := map[int]bool{}

	for si, s := range prog.Steps {
		if r.failed() {
			break
		}
		r.trace("step %d: %s", si, s)
		switch s.Kind {
		case "submit":
			t := r.tasks[s.Task.ID]
			p := r.pools[s.Pool]
			t.expect = 2
			if p.running {
				t.expect = 1
			}
			r.submit(t)
			if a := t.accepted.Load(); r.prog.Attributed && int(a) != t.expect {
				if t.expect == 1 {
					r.fail("not_accepted", "Submit of %s to the running pool p%d did not raise the pending-task counter", t.spec, s.Pool)
				} else {
					r.fail("accepted_after_shutdown", "Submit of %s after p%d.Shutdown() had returned raised the pending-task counter", t.spec, s.Pool)
				}
			}
			if t.expect == 2 {
				r.res.Rejected++
			}
		case "release":
			if t := r.tasks[s.Rel]; !t.released {
				t.released = true
				close(t.release)
			}
		case "shutdown":
			r.doShutdown(s.Pool)
		case "waitShutdown":
			if !r.pools[s.Pool].running { // ShutdownComplete.Wait on a running pool would (rightly) never return
				r.doWaitShutdown(s.Pool)
			}
		case "restart":
			p := r.pools[s.Pool]
			wasRunning := p.running
			p.quiesced.Store(false)
			done := make(chan struct{})
			go func() { p.wp.Start(); close(done) }()
			if !wasRunning {
				// Start has to wait for the workers of the previous run; let it get there before the
				// held tasks are released (only makes the interesting interleaving more likely)
				ctl.WaitChan(done, time.Millisecond)
				r.res.Restarts++
			}
			r.releaseIn(map[int]bool{s.Pool: true})
			if !waitHang(done) {
				r.fail("hang", "p%d.Start() (restart after Shutdown) did not return within %s although all held tasks of the pool had been released; %s", s.Pool, ctl.HangTimeout, r.describe())
				break
			}
			p.running = true
		case "waitZero":
			p := r.pools[s.Pool]
			pset := map[int]bool{s.Pool: true}
			r.releaseIn(pset)
			call := r.clock.Tick()
			if r.within(fmt.Sprintf("p%d.PendingTasksCounter.WaitIsZero()", s.Pool), p.wp.PendingTasksCounter.WaitIsZero) {
				r.checkWaitReturn(fmt.Sprintf("p%d.PendingTasksCounter.WaitIsZero()", s.Pool), pset, call, r.clock.Tick())
			}
		case "waitChildren", "waitParents":
			g := s.Group
			if s.Kind == "waitParents" {
				g = r.rootOf(g)
			}
			pset := r.poolsBelow(g)
			r.releaseIn(pset)
			call := r.clock.Tick()
			f := r.groups[s.Group].WaitChildren
			if s.Kind == "waitParents" {
				f = r.groups[s.Group].WaitParents
			}
			what := fmt.Sprintf("g%d.%s()", s.Group, strings.Replace(s.Kind, "wait", "Wait", 1))
			if r.within(what, f) {
				r.checkWaitReturn(what, pset, call, r.clock.Tick())
			}
		case "groupShutdown":
			pset := r.poolsBelow(s.Group)
			r.releaseIn(pset)
			call := r.clock.Tick()
			what := fmt.Sprintf("g%d.Shutdown()", s.Group)
			if r.within(what, r.groups[s.Group].Shutdown) {
				ret := r.clock.Tick()
				r.checkWaitReturn(what, pset, call, ret)
				// Group.Shutdown shuts its pools down only once (isShutdown flag, set for all sub-groups
				// too): a repeated call only waits and leaves pools that were restarted since running
				var shut func(g int)
				shut = func(g int) {
					if groupShut[g] {
						return
					}
					groupShut[g] = true
					for i, ps := range r.prog.Pools {
						if ps.Group == g {
							r.pools[i].running = false
							r.pools[i].everShutdown = true
						}
					}
					for child, parent := range r.prog.Groups {
						if parent == g {
							shut(child)
						}
					}
				}
				shut(s.Group)
			}
		case "hooked":
			r.hooked(s)
		}
	}

	// closing phase: release everything, shut every pool down and wait for completion
	r.releaseIn(r.allPools())
	for i := range r.pools {
		if r.failed() {
			break
		}
		r.trace("closing: p%d.Shutdown(); ShutdownComplete.Wait()", i)
		if r.doShutdown(i) {
			r.doWaitShutdown(i)
		}
	}
	if !r.failed() {
		r.finalChecks()
	}
	if r.failed() {
		// do not leave parked or held goroutines behind more than necessary
		r.releaseIn(r.allPools())
	}
	r.mu.Lock()
	defer r.mu.Unlock()
	return r.res
}

func (r *run) hooked(s step) {
	p := r.pools[s.Pool]
	t := r.tasks[s.Task.ID]
	r.res.Hooked++
	a := &armInfo{wp: p.wp, parked: make(chan struct{}), release: make(chan struct{})}
	hookState.Store(a)
	hDone := make(chan struct{})
	go func() { r.submit(t); close(hDone) }()
	either := make(chan bool, 2)
	go func() { <-a.parked; either <- true }()
	go func() { <-hDone; either <- false }()
	if parked, ok := patientRecv(either, ctl.HangTimeout); !ok {
		r.fail("hang", "Submit to p%d neither returned nor reached the yield point within %s", s.Pool, ctl.HangTimeout)
	} else if parked {
		r.res.HookParked++
		r.trace("  submitter parked between running-check and counter increment")
	} // else: not accepted at all (pool not running): nothing to race with
	var unparkOnce sync.Once
	unpark := func() {
		unparkOnce.Do(func() {
			hookState.Store(nil)
			if a.taken.CompareAndSwap(false, true) {
				close(a.parked) // nobody parked and nobody will: lets the helper goroutine above finish
			}
			close(a.release) // whoever is parked is released
		})
	}
	if r.failed() {
		unpark()
		return
	}
	if p.running && p.inc.Load()-p.dec.Load() > 0 {
		r.res.ShutdownBusy++
	}
	// the grace periods below only give the racing call time to run to completion while the
	// submitter is parked; an implementation that makes Shutdown wait for the submitter simply
	// does not finish within them
	// (lateGrace is only ever waited for when Shutdown returned while the submitter was parked, i.e. when the
	// implementation does not make Shutdown wait for the submitter)
	const grace, lateGrace = 2 * time.Millisecond, 100 * time.Millisecond
	sDone := make(chan struct{})
	go func() { p.wp.Shutdown(); close(sDone) }()
	shutdownReturned := ctl.WaitChan(sDone, grace)
	var wDone, stDone chan struct{}
	switch {
	case s.Then == "shutdown+wait" && shutdownReturned:
		// only the held tasks of this pool can keep the workers busy
		r.releaseIn(map[int]bool{s.Pool: true})
		wDone = make(chan struct{})
		go func() { p.wp.ShutdownComplete.Wait(); close(wDone) }()
		ctl.WaitChan(wDone, lateGrace)
	case s.Then == "shutdown+start" && shutdownReturned:
		r.releaseIn(map[int]bool{s.Pool: true})
		stDone = make(chan struct{})
		go func() { p.wp.Start(); close(stDone) }()
		ctl.WaitChan(stDone, lateGrace)
	}
	unpark()
	if !waitHang(hDone) {
		r.fail("hang", "Submit to p%d did not return within %s after the yield point released it", s.Pool, ctl.HangTimeout)
		return
	}
	if !waitHang(sDone) {
		r.fail("hang", "p%d.Shutdown() racing with Submit did not return within %s; %s", s.Pool, ctl.HangTimeout, r.describe())
		return
	}
	p.running = false
	p.everShutdown = true
	if wDone != nil {
		if !waitHang(wDone) {
			r.fail("hang", "p%d.ShutdownComplete.Wait() after a Shutdown() that raced with Submit did not return within %s although all held tasks were released; %s", s.Pool, ctl.HangTimeout, r.describe())
			return
		}
		// note: quiesced is not set here - the parked Submit may legitimately have been accepted
		// before Shutdown took effect only in implementations where Shutdown waited for it, and then
		// its task ran before the workers finished; tasks starting later are caught by the closing phase
	}
	if stDone != nil {
		if !waitHang(stDone) {
			r.fail("hang", "p%d.Start() after a Shutdown() that raced with Submit did not return within %s although all held tasks were released; %s", s.Pool, ctl.HangTimeout, r.describe())
			return
		}
		p.running = true
		r.res.Restarts++
	}
}

func (r *run) finalChecks() {
	// every pool is shut down and its workers have finished
	time.Sleep(200 * time.Microsecond) // a task that (wrongly) starts now is caught by the quiesced flag / counts below
	for i, p := range r.pools {
		cnt := p.wp.PendingTasksCounter.Get()
		inc, dec, st, en := p.inc.Load(), p.dec.Load(), p.started.Load(), p.ended.Load()
		if cnt != 0 || inc != dec {
			var lost []string
			for _, t := range r.tasks {
				if t.spec.Pool == i && t.starts.Load() == 0 && (t.accepted.Load() == 1 || (!r.prog.Attributed && t.submitEnd.Load() != 0)) {
					lost = append(lost, t.spec.String())
				}
			}
			r.fail("counter_nonzero", "p%d: after Shutdown + ShutdownComplete.Wait the pending-task counter is %d (accepted %d, finished %d): accepted task(s) were neither run nor cancelled; never started: %v", i, cnt, inc, dec, lost)
			return
		}
		if st != en {
			r.fail("running_after_shutdown_complete", "p%d: %d task(s) still running after ShutdownComplete.Wait returned", i, st-en)
			return
		}
		if st > inc {
			r.fail("ran_without_accept", "p%d: %d tasks ran but the counter accounted for only %d accepted tasks", i, st, inc)
			return
		}
		if !p.spec.Cancel && st != inc {
			r.fail("accepted_not_run", "p%d (no cancel-on-shutdown): %d tasks accepted but %d ran", i, inc, st)
			return
		}
		r.res.Cancelled += inc - st
	}
	for _, t := range r.tasks {
		p := r.pools[t.spec.Pool]
		n := t.starts.Load()
		acc := t.accepted.Load()
		switch {
		case n > 1:
			r.fail("ran_twice", "task %s ran %d times", t.spec, n)
		case (t.expect == 2 || acc == 2) && n != 0:
			r.fail("ran_without_accept", "task %s was not accepted by p%d (counter did not rise / pool shut down) but ran", t.spec, t.spec.Pool)
		case (t.expect == 1 || acc == 1) && !p.spec.Cancel && n != 1:
			r.fail("accepted_not_run", "task %s was accepted by p%d (no cancel-on-shutdown) but never ran", t.spec, t.spec.Pool)
		case n == 1 && t.endStamp.Load() == 0:
			r.fail("running_after_shutdown_complete", "task %s started but has not finished although its pool completed its shutdown", t.spec)
		}
	}
	if r.failed() {
		return
	}
	// after the shutdown completed Submit must not accept anything and nothing may run
	var probeRan atomic.Int32
	for i, p := range r.pools {
		before := p.inc.Load()
		p.wp.Submit(func() { probeRan.Add(1) })
		if p.inc.Load() != before {
			r.fail("accepted_after_shutdown", "p%d: Submit after Shutdown + ShutdownComplete.Wait raised the pending-task counter", i)
			return
		}
	}
	time.Sleep(200 * time.Microsecond)
	if probeRan.Load() != 0 {
		r.fail("ran_after_shutdown_complete", "a task submitted after Shutdown + ShutdownComplete.Wait was run")
	}
}

package c15

import (
	"fmt"
	"strings"
	"sync"
	"sync/atomic"
	"testing"

	"github.com/iotaledger/hive.go/runtime/promise"
	"pgregory.net/rapid"
	"verifharness/internal/ctl"
	"verifharness/internal/stats"
)

// ---------------------------------------------------------------------------------------------------------------
// runtime/promise one-shot events (Event, Event1).
//
// Domain: callbacks registered before Trigger (some unsubscribed again before it), callbacks registered *during*
// Trigger (from inside another callback, up to two levels deep, and from goroutines racing with the Trigger calls,
// some of which unsubscribe immediately = racing unsubscribe), 1-3 racing Trigger calls with different values,
// callbacks registered after Trigger returned (some unsubscribed afterwards, which must be a no-op), a late extra
// Trigger. Oracle: exactly one Trigger call returns true; every callback that was not unsubscribed runs exactly
// once and receives the winning Trigger's value; a callback unsubscribed before any Trigger began never runs; a
// racing unsubscribe allows 0 or 1; a callback registered after the winning Trigger returned has run when OnTrigger
// returns; WasTriggered is true afterwards; the late Trigger returns false and calls nobody.
// ---------------------------------------------------------------------------------------------------------------

const promCheck = "promise_program"

type promAPI interface {
	OnTrigger(cb func(v int)) (unsubscribe func())
	Trigger(v int) bool
	WasTriggered() bool
}

type prom0 struct{ e *promise.Event }

func (p prom0) OnTrigger(cb func(int)) func() { return p.e.OnTrigger(func() { cb(-1) }) }
func (p prom0) Trigger(int) bool              { return p.e.Trigger() }
func (p prom0) WasTriggered() bool            { return p.e.WasTriggered() }

type prom1 struct{ e *promise.Event1[int] }

func (p prom1) OnTrigger(cb func(int)) func() { return p.e.OnTrigger(cb) }
func (p prom1) Trigger(v int) bool            { return p.e.Trigger(v) }
func (p prom1) WasTriggered() bool            { return p.e.WasTriggered() }

type pCB struct {
	id          int
	phase       string // pre, race, post, nested
	unsub       string // "", before, racing, after, inside
	child       *pCB
	yields      int
	registered  atomic.Bool
	calls       atomic.Int32
	wrongVal    atomic.Int64 // value+1 of a call with an unexpected value (0 = none)
	regS, regE  int64
	atReturn    int32 // calls observed when OnTrigger returned
	unsubscribe func()
}

type pTrig struct {
	value      int
	yields     int
	start, end int64
	won        bool
}

type promProgram struct {
	kind  int
	pre   []*pCB
	race  [][]*pCB
	trigs []*pTrig
	post  []*pCB
	all   []*pCB
}

func (p *promProgram) String() string {
	var b strings.Builder
	fmt.Fprintf(&b, "kind=Event%s", []string{"", "1"}[p.kind])
	one := func(c *pCB) {
		fmt.Fprintf(&b, " y%d cb%d", c.yields, c.id)
		if c.unsub != "" {
			fmt.Fprintf(&b, "[unsub:%s]", c.unsub)
		}
		for ch := c.child; ch != nil; ch = ch.child {
			fmt.Fprintf(&b, "{registers cb%d", ch.id)
			if ch.unsub != "" {
				fmt.Fprintf(&b, "[unsub:%s]", ch.unsub)
			}
		}
		for ch := c.child; ch != nil; ch = ch.child {
			b.WriteString("}")
		}
	}
	b.WriteString("|pre:")
	for _, c := range p.pre {
		one(c)
	}
	for i, g := range p.race {
		fmt.Fprintf(&b, "|R%d:", i)
		for _, c := range g {
			one(c)
		}
	}
	for i, t := range p.trigs {
		fmt.Fprintf(&b, "|T%d: y%d trigger(%d)", i, t.yields, t.value)
	}
	b.WriteString("|post:")
	for _, c := range p.post {
		one(c)
	}
	return b.String()
}

func (p *promProgram) lines() []string { return strings.Split(p.String(), "|") }

func drawPromProgram(t *rapid.T) *promProgram {
	p := &promProgram{kind: rapid.IntRange(0, 1).Draw(t, "kind")}
	newCB := func(phase string, unsubChoices []string) *pCB {
		c := &pCB{id: len(p.all), phase: phase, unsub: rapid.SampledFrom(unsubChoices).Draw(t, "unsub"), yields: rapid.IntRange(0, 3).Draw(t, "yields")}
		p.all = append(p.all, c)
		cur := c
		if c.unsub != "before" { // a callback that never runs cannot register anything
			for d := rapid.SampledFrom([]int{0, 0, 1, 2}).Draw(t, "nest"); d > 0; d-- {
				ch := &pCB{id: len(p.all), phase: "nested", unsub: rapid.SampledFrom([]string{"", "", "", "inside"}).Draw(t, "childUnsub")}
				p.all = append(p.all, ch)
				cur.child = ch
				cur = ch
			}
		}
		return c
	}
	for i, n := 0, rapid.IntRange(0, 4).Draw(t, "nPre"); i < n; i++ {
		p.pre = append(p.pre, newCB("pre", []string{"", "", "", "before", "inside"}))
	}
	for g, n := 0, rapid.IntRange(0, 3).Draw(t, "raceGoroutines"); g < n; g++ {
		var l []*pCB
		for i, k := 0, rapid.IntRange(1, 2).Draw(t, "nRace"); i < k; i++ {
			l = append(l, newCB("race", []string{"", "", "", "racing", "inside"}))
		}
		p.race = append(p.race, l)
	}
	for i, n := 0, rapid.IntRange(1, 3).Draw(t, "trigGoroutines"); i < n; i++ {
		p.trigs = append(p.trigs, &pTrig{value: 100 + i, yields: rapid.IntRange(0, 3).Draw(t, "yields")})
	}
	for i, n := 0, rapid.IntRange(0, 3).Draw(t, "nPost"); i < n; i++ {
		p.post = append(p.post, newCB("post", []string{"", "", "after", "inside"}))
	}
	return p
}

type promRun struct {
	p     *promProgram
	api   promAPI
	clock ctl.Clock
}

// register installs c (and, from inside its call, its child chain).
func (r *promRun) register(c *pCB) {
	c.regS = r.clock.Tick()
	c.registered.Store(true)
	var unsub func()
	var ready atomic.Bool
	unsub = r.api.OnTrigger(func(v int) {
		c.calls.Add(1)
		if r.p.kind == 0 && v != -1 {
			c.wrongVal.Store(int64(v) + 1<<40)
		}
		if r.p.kind == 1 {
			c.wrongVal.CompareAndSwap(0, int64(v)+1<<40) // remembered; compared with the winner afterwards
		}
		if c.child != nil {
			r.register(c.child)
		}
		if c.unsub == "inside" && ready.Load() {
			unsub() // unsubscribing from inside the own call: must be harmless
		}
	})
	ready.Store(true)
	c.unsubscribe = unsub
	c.atReturn = c.calls.Load()
	c.regE = r.clock.Tick()
}

func (r *promRun) execute() string {
	p := r.p
	if p.kind == 0 {
		r.api = prom0{promise.NewEvent()}
	} else {
		r.api = prom1{promise.NewEvent1[int]()}
	}
	for _, c := range p.pre {
		r.register(c)
		if c.unsub == "before" {
			c.unsubscribe()
		}
	}
	r.clock.Tick()
	gate := make(chan struct{})
	var wg sync.WaitGroup
	for _, g := range p.race {
		wg.Add(1)
		go func(g []*pCB) {
			defer wg.Done()
			<-gate
			for _, c := range g {
				yield(c.yields)
				r.register(c)
				if c.unsub == "racing" {
					c.unsubscribe()
				}
			}
		}(g)
	}
	for _, t := range p.trigs {
		wg.Add(1)
		go func(t *pTrig) {
			defer wg.Done()
			<-gate
			yield(t.yields)
			t.start = r.clock.Tick()
			t.won = r.api.Trigger(t.value)
			t.end = r.clock.Tick()
		}(t)
	}
	close(gate)
	if !ctl.Within(ctl.HangTimeout, wg.Wait) {
		return "the goroutines of the program did not all return"
	}
	return ""
}

func (r *promRun) judge() (string, map[string]any, []string) {
	p := r.p
	var labels []string
	var winner *pTrig
	wins := 0
	for _, t := range p.trigs {
		if t.won {
			wins++
			winner = t
		}
	}
	if wins != 1 {
		return "Trigger must report success exactly once", map[string]any{"successful_trigger_calls": wins, "trigger_calls": len(p.trigs)}, nil
	}
	if !r.api.WasTriggered() {
		return "WasTriggered is false after a successful Trigger", nil, nil
	}
	want := int64(-1)
	if p.kind == 1 {
		want = int64(winner.value)
	}
	check := func(c *pCB, when string) (string, map[string]any) {
		n := int(c.calls.Load())
		d := map[string]any{"callback": c.id, "phase": c.phase, "unsubscribe": c.unsub, "calls": n, "when": when, "registered": c.registered.Load()}
		if wv := c.wrongVal.Load(); wv != 0 && wv-1<<40 != want {
			d["received"], d["winning_trigger_value"] = wv-1<<40, want
			return "callback received a value that is not the one passed to the successful Trigger", d
		}
		if !c.registered.Load() {
			if n != 0 {
				return "a callback that was never registered ran", d
			}
			return "", nil
		}
		switch c.unsub {
		case "before":
			if n != 0 {
				return "callback ran although it was unsubscribed before Trigger", d
			}
		case "racing":
			if n > 1 {
				return "callback ran more than once", d
			}
		default:
			if n != 1 {
				return "callback that was not unsubscribed did not run exactly once", d
			}
		}
		return "", nil
	}
	for _, c := range p.all {
		// a nested callback is registered iff its parent ran; parents of pre/race phase ran by now
		if c.phase == "post" || (c.phase == "nested" && !c.registered.Load()) {
			continue
		}
		if msg, d := check(c, "after all Trigger and racing OnTrigger calls returned"); msg != "" {
			return msg, d, nil
		}
	}
	for _, g := range p.race {
		for _, c := range g {
			if c.regS > winner.end && c.atReturn != 1 {
				return "OnTrigger began after the successful Trigger had returned, but the callback had not run when OnTrigger returned",
					map[string]any{"callback": c.id, "calls_when_OnTrigger_returned": c.atReturn, "OnTrigger_start": c.regS, "Trigger_end": winner.end}, nil
			}
			if c.unsub == "" {
				if c.atReturn == 1 {
					labels = append(labels, "racing_cb_ran_inline")
				} else {
					labels = append(labels, "racing_cb_ran_from_trigger")
				}
			}
		}
	}
	// ---- after: sequential tail
	for _, c := range p.post {
		r.register(c)
		if c.atReturn != 1 {
			return "a callback registered after Trigger had not run when OnTrigger returned",
				map[string]any{"callback": c.id, "calls_when_OnTrigger_returned": c.atReturn}, nil
		}
		if c.unsub == "after" {
			c.unsubscribe()
			c.unsubscribe()
		}
	}
	for _, c := range p.pre { // unsubscribing after the fact is a no-op
		c.unsubscribe()
	}
	if r.api.Trigger(999) {
		return "a second Trigger reported success", nil, nil
	}
	for _, c := range p.all {
		if msg, d := check(c, "at the end (after late registrations, late unsubscribes and a second Trigger)"); msg != "" {
			return msg, d, nil
		}
		if c.phase == "nested" && c.registered.Load() {
			labels = append(labels, "nested_registered")
		}
	}
	return "", nil, labels
}

func runPromiseProgram(t *rapid.T) {
	p := drawPromProgram(t)
	r := &promRun{p: p}
	if hang := r.execute(); hang != "" {
		stats.Violation(promCheck, map[string]any{"program": p.lines(), "problem": hang, "goroutines": ctl.Dump()})
		t.Fatalf("%s\n%s", hang, strings.Join(p.lines(), "\n"))
	}
	problem, detail, labels := r.judge()
	during := len(p.race) > 0
	for _, c := range p.all {
		if c.phase == "nested" {
			during = true
		}
	}
	labels = append(labels, fmt.Sprintf("kind:Event%s", []string{"", "1"}[p.kind]), fmt.Sprintf("triggers:%d", len(p.trigs)), fmt.Sprintf("racing_registrars:%d", len(p.race)))
	stats.Case(promCheck, len(p.pre) > 0 && during && len(p.post) > 0, p.String(), func() any { return p.lines() }, dedup(labels)...)
	if problem != "" {
		stats.Violation(promCheck, map[string]any{"program": p.lines(), "problem": problem, "detail": detail})
		t.Fatalf("%s\n%v\n%s", problem, detail, strings.Join(p.lines(), "\n"))
	}
}

func dedup(in []string) []string {
	seen := map[string]bool{}
	var out []string
	for _, s := range in {
		if !seen[s] {
			seen[s] = true
			out = append(out, s)
		}
	}
	return out
}

func TestPromiseProgram(t *testing.T) {
	stats.Rule(promCheck, "rapid draws: Event or Event1; 0-4 callbacks before (some unsubscribed before), nested registrations from inside callbacks (depth <=2), 0-3 goroutines registering 1-2 callbacks while 1-3 goroutines call Trigger with distinct values (some unsubscribe at once), 0-3 callbacks after, late unsubscribes and a second Trigger; schedule is the Go scheduler's; distinct by program text; non-trivial = has a callback registered before, one during (nested or racing) and one after Trigger")
	rapid.Check(t, runPromiseProgram)
}

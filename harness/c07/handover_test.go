package c07

import (
	"encoding/binary"
	"fmt"
	"strings"
	"sync"
	"sync/atomic"
	"testing"

	"github.com/iotaledger/hive.go/kvstore"
	"github.com/iotaledger/hive.go/kvstore/mapdb"
	"pgregory.net/rapid"
	"verifharness/internal/ctl"
	"verifharness/internal/stats"
)

// leaseSpy records the last value written under the sequence key (the end of the lease a Sequence object reserved).
type leaseSpy struct {
	kvstore.KVStore
	key  string
	last atomic.Uint64
	sets atomic.Int64
}

func (s *leaseSpy) Set(k kvstore.Key, v kvstore.Value) error {
	if string(k) == s.key && len(v) == 8 {
		s.last.Store(binary.BigEndian.Uint64(v))
		s.sets.Add(1)
	}

	return s.KVStore.Set(k, v)
}

// TestSequenceHandOver: several Sequence objects for ONE key take turns (fault free). An object may hand out numbers
// only while every other object is quiescent - it gave its lease back with Release or used it up completely; such an
// object may be used again later, may be released a second time (a no-op) and may be replaced by a new object. Without
// crashes nothing is wasted, so the numbers handed out for the key, by whichever object, must be exactly 0, 1, 2, ...
// A second goroutine meanwhile drives an independent Sequence on another key of the same store (own contiguity check):
// objects of different keys must not influence each other.
func TestSequenceHandOver(t *testing.T) {
	const check = "sequence_handover"
	stats.Rule(check, "rapid draws 2..3 Sequence objects on one key (intervals from {1,2,3,5,17}) and 4..30 actions: Next on an object (only drawn while all other objects are quiescent: released, or lease observed to be used up through the value the object last wrote to the store), Release on any object that is the current owner or quiescent (late / second Release of an object without a lease included, also while another object owns the lease), replace a quiescent object by a new one with a new interval; meanwhile a bystander goroutine runs Next/Release/re-create on another key of the same store. Oracle: the numbers handed out for the key are exactly 0,1,2,... in call order (strictly increasing, nothing reused, nothing wasted without a crash); the bystander's numbers likewise. Distinct by action list; non-trivial = >= 2 hand-overs between different objects and a late Release")
	rapid.Check(t, func(rt *rapid.T) {
		db := mapdb.NewMapDB()
		spy := &leaseSpy{KVStore: db, key: string(seqKey)}
		type obj struct {
			seq       *kvstore.Sequence
			interval  uint64
			leaseEnd  uint64 // value this object last wrote while reserving
			last      uint64 // last number it handed out
			handed    bool   // has handed out a number since it became quiescent the last time
			quiescent bool
		}
		intervals := []uint64{1, 2, 3, 5, 17}
		nObj := rapid.IntRange(2, 3).Draw(rt, "objects")
		objs := make([]*obj, nObj)
		var log []string
		fail := func(format string, a ...any) {
			msg := fmt.Sprintf(format, a...)
			stats.Violation(check, map[string]any{"actions": log, "problem": msg})
			rt.Fatalf("%s\nactions: %s", msg, strings.Join(log, " "))
		}
		mk := func(i int) {
			iv := rapid.SampledFrom(intervals).Draw(rt, "interval")
			s, err := kvstore.NewSequence(spy, seqKey, iv)
			if err != nil {
				fail("NewSequence failed: %v", err)
			}
			objs[i] = &obj{seq: s, interval: iv, quiescent: true}
			log = append(log, fmt.Sprintf("new(o%d,interval=%d)", i, iv))
		}
		for i := range objs {
			mk(i)
		}

		// bystander on another key
		stop := make(chan struct{})
		var wg sync.WaitGroup
		var byProblem atomic.Value
		wg.Add(1)
		go func() {
			defer wg.Done()
			otherKey := []byte("other-seq")
			s, err := kvstore.NewSequence(db, otherKey, 2)
			if err != nil {
				byProblem.Store("bystander: NewSequence failed: " + err.Error())
				return
			}
			want := uint64(0)
			for i := 0; ; i++ {
				select {
				case <-stop:
					return
				default:
				}
				n, err := s.Next()
				if err != nil || n != want {
					byProblem.Store(fmt.Sprintf("bystander sequence on another key: Next = (%d, %v), want %d", n, err, want))
					return
				}
				want++
				if i%3 == 2 {
					if err := s.Release(); err != nil {
						byProblem.Store("bystander: Release failed: " + err.Error())
						return
					}
				}
				if i%7 == 6 {
					_ = s.Release()
					if s, err = kvstore.NewSequence(db, otherKey, uint64(1+i%3)); err != nil {
						byProblem.Store("bystander: NewSequence failed: " + err.Error())
						return
					}
				}
			}
		}()
		defer func() {
			close(stop)
			if !ctl.WithinHang(wg.Wait) {
				rt.Fatalf("bystander goroutine did not stop\n%s", ctl.Dump())
			}
		}()

		want := uint64(0)
		owner := -1 // index of the object holding an open lease, -1 if all are quiescent
		handovers, lateRelease := 0, 0
		lastOwner := -1
		n := rapid.IntRange(4, 30).Draw(rt, "actions")
		for step := 0; step < n; step++ {
			i := rapid.IntRange(0, nObj-1).Draw(rt, "obj")
			o := objs[i]
			switch k := rapid.IntRange(0, 9).Draw(rt, "kind"); {
			case k < 6: // next
				if owner != -1 && owner != i {
					i, o = owner, objs[owner] // another object owns the lease: the owner continues instead
				}
				setsBefore := spy.sets.Load()
				got, err := o.seq.Next()
				log = append(log, fmt.Sprintf("o%d.next=%d", i, got))
				if err != nil {
					fail("o%d.Next failed without any fault: %v", i, err)
				}
				if got != want {
					fail("o%d.Next returned %d, want %d: the numbers handed out for the key so far were 0..%d without a gap, no crash happened (a smaller number is a reuse, a larger one a waste)", i, got, want, want-1)
				}
				want++
				if spy.sets.Load() != setsBefore {
					o.leaseEnd = spy.last.Load()
				}
				o.last, o.handed = got, true
				if lastOwner != -1 && lastOwner != i {
					handovers++
				}
				lastOwner = i
				if got+1 >= o.leaseEnd {
					o.quiescent, owner = true, -1 // lease used up
				} else {
					o.quiescent, owner = false, i
				}
			case k < 9: // release (owner or quiescent object)
				if owner != -1 && owner != i && !o.quiescent {
					continue
				}
				if o.quiescent {
					lateRelease++
				}
				err := o.seq.Release()
				log = append(log, fmt.Sprintf("o%d.release", i))
				if err != nil {
					fail("o%d.Release failed without any fault: %v", i, err)
				}
				if owner == i {
					owner = -1
				}
				o.quiescent = true
			default: // replace a quiescent object
				if !o.quiescent {
					continue
				}
				mk(i)
			}
			if p := byProblem.Load(); p != nil {
				fail("%v", p)
			}
		}
		if p := byProblem.Load(); p != nil {
			fail("%v", p)
		}
		stats.Case(check, handovers >= 2 && lateRelease >= 1, strings.Join(log, " "), func() any { return log })
	})
}

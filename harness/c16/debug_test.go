package c16

import (
	"testing"

	"verifharness/internal/ctl"
)

func TestDebugScenario(t *testing.T) {
	prog := program{
		Pools:      []poolSpec{{Group: -1, Workers: 4, Cancel: true}, {Group: -1, Workers: 1, Cancel: true}},
		Attributed: true,
		Steps: []step{
			{Kind: "submit", Pool: 0, Task: &taskSpec{ID: 1, Pool: 0, Held: true, Children: []taskSpec{{ID: 4, Pool: 0, Held: true}}}},
			{Kind: "hooked", Pool: 0, Task: &taskSpec{ID: 7, Pool: 0}, Then: "shutdown+start"},
		},
	}
	r := &run{prog: prog}
	res := r.execute()
	if res.Kind != "" {
		t.Fatalf("%s: %s\n%s\n%s", res.Kind, res.Violation, joinLines(res.Trace), ctl.Dump())
	}
}

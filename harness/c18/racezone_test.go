package c18

import (
	"fmt"
	"sync/atomic"
	"testing"
	"time"

	"github.com/iotaledger/hive.go/runtime/timed"
	"pgregory.net/rapid"
	"verifharness/internal/ctl"
	"verifharness/internal/stats"
)

const checkRace = "cancel_race_zone"

// raceTrial is one Cancel(id) aimed at offsetUs microseconds around the due time of the identifier's task.
type raceTrial struct {
	OffsetUs int
	DelayMs  int
}

type raceOutcome struct {
	trial   raceTrial
	result  bool
	ran     *atomic.Int32
	landing time.Duration // Cancel return relative to the due time
}

// runRaceBatch schedules one task per trial under its own identifier, spins until offset around the due time, calls
// Cancel(id) and records the returned bool. After a waiting Shutdown (every accepted task has run or was cancelled) the
// bool must agree with what happened: true <=> the callback never ran. This is exact in every zone because the return
// value is the executor's own statement about which of the two happened first.
func runRaceBatch(workers int, trials []raceTrial) (outs []raceOutcome, failure string) {
	te := timed.NewTaskExecutor[int](workers)
	var lastDue time.Time
	for i, tr := range trials {
		ran := new(atomic.Int32)
		due := time.Now().Add(time.Duration(tr.DelayMs) * time.Millisecond)
		lastDue = due
		if te.ExecuteAt(i, func() { ran.Add(1) }, due) == nil {
			return nil, "ExecuteAt returned nil before Shutdown"
		}
		target := due.Add(time.Duration(tr.OffsetUs) * time.Microsecond)
		for time.Now().Before(target) { // steering only
		}
		res := te.Cancel(i)
		outs = append(outs, raceOutcome{trial: tr, result: res, ran: ran, landing: time.Since(due)})
	}
	if !ctl.Within(time.Until(lastDue)+ctl.HangTimeout, func() { te.Shutdown() }) {
		return outs, "hang: Shutdown did not return\n" + ctl.Dump()
	}
	for i, o := range outs {
		n := o.ran.Load()
		switch {
		case n > 1:
			return outs, fmt.Sprintf("trial %d: callback ran %d times", i, n)
		case o.result && n != 0:
			return outs, fmt.Sprintf("trial %d: Cancel(id) returned true (%.3fms relative to the due time) but the callback ran", i, msOf(o.landing))
		case !o.result && n != 1:
			return outs, fmt.Sprintf("trial %d: Cancel(id) returned false (%.3fms relative to the due time) but the callback never ran although Shutdown waited for pending tasks", i, msOf(o.landing))
		}
	}

	return outs, ""
}

func TestCancelRaceZone(t *testing.T) {
	stats.Rule(checkRace, "rapid draws a batch of 20..40 trials: a task due in 1..3 ms under a fresh identifier of a TaskExecutor (1..3 workers) and a Cancel(id) aimed at -300..+300us around the due time; oracle: Cancel(id)==true <=> the callback never ran (judged after a waiting Shutdown). A batch is non-trivial when both outcomes occurred in it; distinct by the drawn offsets")
	rapid.Check(t, func(rt *rapid.T) {
		workers := rapid.IntRange(1, 3).Draw(rt, "workers")
		n := rapid.IntRange(20, 40).Draw(rt, "n")
		trials := make([]raceTrial, n)
		for i := range trials {
			trials[i] = raceTrial{OffsetUs: rapid.IntRange(-300, 300).Draw(rt, "off"), DelayMs: rapid.IntRange(1, 3).Draw(rt, "d")}
		}
		outs, failure := runRaceBatch(workers, trials)
		payload := map[string]any{"workers": workers, "ops": trials}
		if failure != "" {
			fail(rt, checkRace, payload, failure)
		}
		won, lost := 0, 0
		for _, o := range outs {
			if o.result {
				won++
			} else {
				lost++
			}
		}
		stats.NoteAdd(checkRace, "trials", int64(len(outs)))
		stats.NoteAdd(checkRace, "cancel_won", int64(won))
		stats.NoteAdd(checkRace, "cancel_lost", int64(lost))
		var ls []string
		if won > 0 && lost > 0 {
			ls = append(ls, "both_outcomes")
		}
		stats.Case(checkRace, won > 0 && lost > 0, fmt.Sprint(workers, trials), func() any { return payload }, ls...)
	})
}

// TestCancelRacingShutdown: Cancel(id) calls issued at the very moment a Shutdown with IgnorePendingTimeouts (and
// DontWaitForShutdown) wakes the workers that hold the tasks. Whichever side wins for a task, Cancel(id)'s answer must
// be the truth: true <=> the callback never ran.
func TestCancelRacingShutdown(t *testing.T) {
	const check = "cancel_racing_shutdown"
	stats.Rule(check, "rapid draws 1..4 workers, 1..8 identifiers with tasks due in 300 ms, shutdown flags from {IgnorePendingTimeouts, IgnorePendingTimeouts|CancelPendingElements, none, CancelPendingElements} (always with DontWaitForShutdown) and a 0..20 us head start for either side; 40 trials (thorough 300) per case: fresh TaskExecutor, tasks scheduled, a moment for the workers to take them, then one goroutine calls Shutdown(flags) and another calls Cancel(id) for every identifier, released together; afterwards a waiting Shutdown(CancelPendingElements) ends the trial (20 s watchdog). Oracle per identifier: the callback ran at most once; Cancel(id) == true => it never ran. (Cancel == false does not imply a run here: the shutdown may have dropped the task.) Distinct by configuration; non-trivial = an IgnorePendingTimeouts shutdown with >= 2 workers")
	trials := stats.Scale(40, 300)
	rapid.Check(t, func(rt *rapid.T) {
		workers := rapid.IntRange(1, 4).Draw(rt, "workers")
		ids := rapid.IntRange(1, 8).Draw(rt, "ids")
		flags := rapid.SampledFrom([]int{fIgnore, fIgnore, fIgnore | fCancel, 0, fCancel}).Draw(rt, "flags") | fNoWait
		headUs := rapid.IntRange(-20, 20).Draw(rt, "headStartUs")
		desc := fmt.Sprintf("workers=%d ids=%d shutdown=%s cancelHeadStart=%dus", workers, ids, flagName(flags), headUs)
		failf := func(format string, a ...any) {
			msg := fmt.Sprintf(format, a...)
			stats.Violation(check, map[string]any{"config": desc, "problem": msg})
			rt.Fatalf("%s: %s", desc, msg)
		}
		for trial := 0; trial < trials; trial++ {
			te := timed.NewTaskExecutor[int](workers)
			ran := make([]atomic.Int32, ids)
			due := time.Now().Add(300 * time.Millisecond)
			for i := 0; i < ids; i++ {
				i := i
				te.ExecuteAt(i, func() { ran[i].Add(1) }, due)
			}
			time.Sleep(200 * time.Microsecond) // lets the workers take the first tasks out of the queue (steering only)
			results := make([]bool, ids)
			var ready atomic.Int32
			done := make(chan struct{}, 2)
			spin := func(us int) {
				ready.Add(1)
				for ready.Load() < 2 {
				}
				if us > 0 {
					for t0 := time.Now(); time.Since(t0) < time.Duration(us)*time.Microsecond; {
					}
				}
			}
			go func() { spin(headUs); te.Shutdown(flagList(flags)...); done <- struct{}{} }()
			go func() {
				spin(-headUs)
				for i := 0; i < ids; i++ {
					results[i] = te.Cancel(i)
				}
				done <- struct{}{}
			}()
			for k := 0; k < 2; k++ {
				if !ctl.WaitChan(done, ctl.HangTimeout) {
					failf("trial %d: Shutdown(DontWaitForShutdown) or Cancel(id) did not return\n%s", trial, ctl.Dump())
				}
			}
			if !ctl.WithinHang(func() { te.Shutdown(timed.CancelPendingElements) }) {
				failf("trial %d: the final waiting Shutdown did not return\n%s", trial, ctl.Dump())
			}
			for i := 0; i < ids; i++ {
				switch n := ran[i].Load(); {
				case n > 1:
					failf("trial %d: the callback of identifier %d ran %d times", trial, i, n)
				case results[i] && n != 0:
					failf("trial %d: Cancel(%d) returned true (it prevented the task from running) but the callback ran", trial, i)
				}
			}
		}
		stats.Case(check, flags&fIgnore != 0 && workers >= 2, desc, func() any { return desc })
	})
}

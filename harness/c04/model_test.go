package c04

import (
	"bytes"
	"encoding/hex"
	"sort"
	"strings"
)

// refModel is the reference of property C04: ONE ordered map keyed by realm||key. Views differ only in the
// realm they prepend on the way in and strip on the way out.
type refModel struct {
	m      map[string][]byte // full key -> value
	writer map[string]string // full key -> realm of the view the surviving write came through (for the non-trivial rule only)
	closed bool
}

func newRefModel() *refModel {
	return &refModel{m: map[string][]byte{}, writer: map[string]string{}}
}

type kv struct {
	k, v []byte
}

func full(realm, key []byte) string { return string(realm) + string(key) }

func (r *refModel) set(realm, key, val []byte) {
	fk := full(realm, key)
	r.m[fk] = append([]byte{}, val...)
	r.writer[fk] = string(realm)
}

func (r *refModel) del(realm, key []byte) {
	fk := full(realm, key)
	delete(r.m, fk)
	delete(r.writer, fk)
}

func (r *refModel) get(realm, key []byte) ([]byte, bool) {
	v, ok := r.m[full(realm, key)]
	return v, ok
}

// fullKeys returns all full keys carrying the prefix, ascending byte order (Go string order is byte order).
func (r *refModel) fullKeys(prefix string) []string {
	var out []string
	for k := range r.m {
		if strings.HasPrefix(k, prefix) {
			out = append(out, k)
		}
	}
	sort.Strings(out)
	return out
}

func (r *refModel) deletePrefix(realm, prefix []byte) {
	for _, k := range r.fullKeys(full(realm, prefix)) {
		delete(r.m, k)
		delete(r.writer, k)
	}
}

// scan is what Iterate must report: entries whose full key starts with realm||prefix, realm stripped, in
// ascending / descending byte order.
func (r *refModel) scan(realm, prefix []byte, backward bool) []kv {
	keys := r.fullKeys(full(realm, prefix))
	if backward {
		for i, j := 0, len(keys)-1; i < j; i, j = i+1, j-1 {
			keys[i], keys[j] = keys[j], keys[i]
		}
	}
	out := make([]kv, 0, len(keys))
	for _, k := range keys {
		out = append(out, kv{k: []byte(k[len(realm):]), v: r.m[k]})
	}
	return out
}

// crossRealmHit reports whether the keys matched by realm||prefix were written through (at least) two views
// whose realms are strict prefixes of one another - the first clause of the non-trivial rule.
func (r *refModel) crossRealmHit(realm, prefix []byte) bool {
	seen := map[string]bool{}
	for _, k := range r.fullKeys(full(realm, prefix)) {
		seen[r.writer[k]] = true
	}
	for a := range seen {
		for b := range seen {
			if len(a) < len(b) && strings.HasPrefix(b, a) {
				return true
			}
		}
	}
	return false
}

func hx(b []byte) string {
	if b == nil {
		return "nil"
	}
	if len(b) == 0 {
		return "''"
	}
	return hex.EncodeToString(b)
}

func renderKVs(l []kv, keysOnly bool) []string {
	out := make([]string, 0, len(l))
	for _, e := range l {
		if keysOnly {
			out = append(out, hx(e.k))
		} else {
			out = append(out, hx(e.k)+"="+hx(e.v))
		}
	}
	return out
}

func sameKVs(a, b []kv, keysOnly bool) bool {
	if len(a) != len(b) {
		return false
	}
	for i := range a {
		if !bytes.Equal(a[i].k, b[i].k) {
			return false
		}
		if !keysOnly && !bytes.Equal(a[i].v, b[i].v) {
			return false
		}
	}
	return true
}

// clone returns a copy with cap == len, so that scribbling over the original can never reach it.
func clone(b []byte) []byte {
	if b == nil {
		return nil
	}
	c := make([]byte, len(b))
	copy(c, b)
	return c
}

// scribble overwrites every byte of b including spare capacity (a caller that owns a private copy may append).
func scribble(b []byte) {
	b = b[:cap(b)]
	for i := range b {
		b[i] ^= 0x5a
	}
}

package c02

import (
	"encoding/json"
	"fmt"
	"sort"
	"testing"

	"pgregory.net/rapid"
	"verifharness/internal/serixgen"
	"verifharness/internal/stats"
)

var junkNodes = []func() any{
	func() any { return nil },
	func() any { return 1.5 },
	func() any { return -1.0 },
	func() any { return 1e30 },
	func() any { return 4294967296.0 },
	func() any { return "x" },
	func() any { return "" },
	func() any { return "0xzz" },
	func() any { return "0x" },
	func() any { return "12" },
	func() any { return "-1" },
	func() any { return "99999999999999999999999" },
	func() any { return "NaN" },
	func() any { return true },
	func() any { return []any{} },
	func() any { return []any{1.0, "a", nil} },
	func() any { return map[string]any{} },
	func() any { return map[string]any{"type": 5.0} },
	func() any { return map[string]any{"type": "x", "data": 3.0} },
	func() any { return map[string]any{"type": nil} },
	func() any { return map[string]any{"data": []any{}} },
}

// paths enumerates every node of a JSON tree as a path of keys / indices.
func paths(v any, cur []any, out *[][]any) {
	*out = append(*out, append([]any{}, cur...))
	switch x := v.(type) {
	case map[string]any:
		keys := make([]string, 0, len(x))
		for k := range x {
			keys = append(keys, k)
		}
		sort.Strings(keys)
		for _, k := range keys {
			paths(x[k], append(cur, k), out)
		}
	case []any:
		for i := range x {
			paths(x[i], append(cur, i), out)
		}
	}
}

// getAt returns the node at path (nil when the path does not exist).
func getAt(root any, path []any) any {
	for _, st := range path {
		switch x := root.(type) {
		case map[string]any:
			k, _ := st.(string)
			root = x[k]
		case []any:
			i, _ := st.(int)
			if i >= len(x) {
				return nil
			}
			root = x[i]
		default:
			return nil
		}
	}

	return root
}

func deepCopy(v any) any {
	switch x := v.(type) {
	case map[string]any:
		m := make(map[string]any, len(x))
		for k, e := range x {
			m[k] = deepCopy(e)
		}
		return m
	case []any:
		l := make([]any, len(x))
		for i, e := range x {
			l[i] = deepCopy(e)
		}
		return l
	}

	return v
}

// setAt replaces (or deletes, when del) the node at path; the root itself is never replaced by a non-object.
func setAt(root any, path []any, nv any, del bool) any {
	if len(path) == 0 {
		return root
	}
	switch x := root.(type) {
	case map[string]any:
		k, _ := path[0].(string)
		if len(path) == 1 {
			if del {
				delete(x, k)
			} else {
				x[k] = nv
			}
			return x
		}
		x[k] = setAt(x[k], path[1:], nv, del)
		return x
	case []any:
		i, _ := path[0].(int)
		if i >= len(x) {
			return x
		}
		if len(path) == 1 {
			if del {
				return append(x[:i], x[i+1:]...)
			}
			x[i] = nv
			return x
		}
		x[i] = setAt(x[i], path[1:], nv, del)
		return x
	}
	return root
}

func genJSON(rt *rapid.T, depth int, label string) any {
	k := rapid.IntRange(0, 7).Draw(rt, label+".k")
	if depth >= 3 && k >= 6 {
		k = 0
	}
	switch k {
	case 0:
		return rapid.SampledFrom(junkNodes).Draw(rt, label+".junk")()
	case 1:
		return float64(rapid.IntRange(-5, 300).Draw(rt, label+".n"))
	case 2:
		return rapid.SampledFrom([]string{"", "a", "0x00", "0x0102", "7", "type", "18446744073709551616", "+Inf"}).Draw(rt, label+".s")
	case 3:
		return rapid.Bool().Draw(rt, label+".b")
	case 4:
		return nil
	case 5:
		return float64(rapid.Int64().Draw(rt, label+".big"))
	case 6:
		n := rapid.IntRange(0, 3).Draw(rt, label+".an")
		a := make([]any, n)
		for i := range a {
			a[i] = genJSON(rt, depth+1, fmt.Sprintf("%s.%d", label, i))
		}
		return a
	default:
		n := rapid.IntRange(0, 4).Draw(rt, label+".on")
		m := map[string]any{}
		for i := 0; i < n; i++ {
			key := rapid.SampledFrom([]string{"type", "data", "x", "s", "f1_0", "f1_1", "f1_2", "k1_0", "k1_1", "r", "", "0x01020304", "5"}).Draw(rt, fmt.Sprintf("%s.k%d", label, i))
			m[key] = genJSON(rt, depth+1, fmt.Sprintf("%s.v%d", label, i))
		}
		return m
	}
}

func TestJSONDecodeTotal(t *testing.T) {
	const check = "json_decode_total"
	stats.Rule(check, "for a generated type shape (no expressibility filter: every registered target type counts) the JSON document of a valid value is parsed into a tree and 1..3 nodes are replaced by junk of another JSON type (null, numbers incl. out-of-range, non-hex / non-numeric strings, bools, arrays, objects with a bogus \"type\") or deleted, a list grows by 1..300 copies of its own entries or junk (more entries than a fixed-size array holds or a maximum allows), or a subtree of the same document is grafted elsewhere; alternatively the document is drawn from a small JSON grammar whose keys collide with generated field keys; JSONDecode of the marshalled tree and MapDecode of the tree run with validation off and on. Oracle: returns (no panic); allocation <= 1 MiB + 2 KiB * len(document). Distinct by (shape, document); non-trivial = document is a mutated valid document")
	rapid.Check(t, func(rt *rapid.T) {
		c := serixgen.NewCase(rt, cfg())
		v, _ := serixgen.GenValue(rt, c.Root, serixgen.ValidMode, cfg())
		var tree any
		label := "grammar"
		je := c.JSONEncode(v, false)
		if je.Panic == nil && je.Err == nil && rapid.IntRange(0, 5).Draw(rt, "useGrammar") != 0 {
			if err := json.Unmarshal(je.Bytes, &tree); err != nil {
				rt.Fatalf("JSONEncode produced an unparsable document: %v", err)
			}
			k := rapid.IntRange(1, 3).Draw(rt, "nmut")
			for i := 0; i < k; i++ {
				var ps [][]any
				paths(tree, nil, &ps)
				if len(ps) <= 1 {
					break
				}
				p := ps[rapid.IntRange(1, len(ps)-1).Draw(rt, "path")]
				switch rapid.IntRange(0, 7).Draw(rt, "mutation") {
				case 0:
					tree = setAt(tree, p, nil, true)
				case 1, 2:
					// a list grows: copies of one of its entries (or junk) are appended - more entries than a fixed-size
					// array has room for, than a maximum allows, repeated map entries / set elements
					var lists [][]any
					for _, q := range ps {
						if l, ok := getAt(tree, q).([]any); ok && len(q) > 0 {
							_ = l
							lists = append(lists, q)
						}
					}
					if len(lists) == 0 {
						tree = setAt(tree, p, rapid.SampledFrom(junkNodes).Draw(rt, "junk")(), false)
						break
					}
					q := lists[rapid.IntRange(0, len(lists)-1).Draw(rt, "list")]
					l, _ := getAt(tree, q).([]any)
					extra := rapid.SampledFrom([]int{1, 1, 2, 5, 300}).Draw(rt, "extra")
					nl := append([]any{}, l...)
					for j := 0; j < extra; j++ {
						if len(l) > 0 && rapid.IntRange(0, 3).Draw(rt, "copy") != 0 {
							nl = append(nl, deepCopy(l[rapid.IntRange(0, len(l)-1).Draw(rt, "src")]))
						} else {
							nl = append(nl, rapid.SampledFrom(junkNodes).Draw(rt, "junk")())
						}
					}
					tree = setAt(tree, q, nl, false)
				case 3:
					// a well-formed subtree of the same document in the wrong place
					src := ps[rapid.IntRange(1, len(ps)-1).Draw(rt, "graft")]
					tree = setAt(tree, p, deepCopy(getAt(tree, src)), false)
				default:
					tree = setAt(tree, p, rapid.SampledFrom(junkNodes).Draw(rt, "junk")(), false)
				}
			}
			label = "mutated_valid_document"
		} else {
			m := map[string]any{}
			n := rapid.IntRange(0, 5).Draw(rt, "rootKeys")
			for i := 0; i < n; i++ {
				key := rapid.SampledFrom([]string{"type", "f1_0", "f1_1", "f1_2", "f1_3", "k1_0", "k1_1", "k1_2", "x", "s"}).Draw(rt, fmt.Sprintf("rk%d", i))
				m[key] = genJSON(rt, 0, fmt.Sprintf("rv%d", i))
			}
			tree = m
		}
		doc, err := json.Marshal(tree)
		if err != nil {
			rt.Skip("unmarshalable tree")
		}
		ex := map[string]any{"document": string(doc), "kind": label}
		for _, validate := range []bool{false, true} {
			ex["validate"] = validate
			out := c.JSONDecode(doc, validate) // warm-up of reflect / serix type caches, see TestDecodeTotalBounded
			if out.Panic != nil {
				violation(rt, check, c, ex, "JSONDecode panicked: %v", out.Panic)
			}
			alloc := measure(func() { out = c.JSONDecode(doc, validate) })
			if out.Panic != nil {
				violation(rt, check, c, ex, "JSONDecode panicked: %v", out.Panic)
			}
			if alloc > allocCap(len(doc))+uint64(64*len(doc)) {
				violation(rt, check, c, ex, "JSONDecode allocated %d bytes for a %d-byte document", alloc, len(doc))
			}
			if m, ok := tree.(map[string]any); ok {
				var fresh map[string]any
				_ = json.Unmarshal(doc, &fresh) // MapDecode gets its own copy of the tree
				_ = m
				out = c.MapDecode(fresh, validate)
				if out.Panic != nil {
					violation(rt, check, c, ex, "MapDecode panicked: %v", out.Panic)
				}
			}
		}
		stats.Case(check, label == "mutated_valid_document", c.Root.String()+"|"+string(doc), func() any {
			return map[string]any{"schema": c.Root.String(), "document": string(doc)}
		}, "doc:"+label)
	})
}

package c18

import (
	"fmt"
	"runtime/debug"
	"strings"
	"time"

	"github.com/iotaledger/hive.go/runtime/timed"
	"pgregory.net/rapid"
	"verifharness/internal/ctl"
	"verifharness/internal/stats"
)

// soundMargin: a Cancel that returned at least this long before the victim's scheduled time (and before any
// IgnorePendingTimeouts shutdown began) must prevent the delivery. Nothing may deliver the element before its
// scheduled time, so at the moment Cancel returned the element was still undelivered.
const soundMargin = 5 * time.Millisecond

// delays (ms) relative to "now" at the moment the element is scheduled; -5 = already due.
var delaysMs = []int{-5, 0, 2, 5, 10, 10, 20, 20, 40}

var sleepsMs = []int{1, 2, 5, 10}

const (
	fCancel = 1 // timed.CancelPendingElements
	fIgnore = 2 // timed.IgnorePendingTimeouts
	fNoWait = 4 // timed.DontWaitForShutdown (executors only)
)

func flagList(f int) []timed.ShutdownFlag {
	var l []timed.ShutdownFlag
	if f&fCancel != 0 {
		l = append(l, timed.CancelPendingElements)
	}
	if f&fIgnore != 0 {
		l = append(l, timed.IgnorePendingTimeouts)
	}
	if f&fNoWait != 0 {
		l = append(l, timed.DontWaitForShutdown)
	}

	return l
}

func flagName(f int) string {
	if f == 0 {
		return "plain"
	}
	var p []string
	if f&fCancel != 0 {
		p = append(p, "cancelpending")
	}
	if f&fIgnore != 0 {
		p = append(p, "ignoretimeouts")
	}
	if f&fNoWait != 0 {
		p = append(p, "dontwait")
	}

	return strings.Join(p, "+")
}

// op is one step of a controller script (all fields drawn from rapid).
type op struct {
	Kind  string // add/at/after, cancel, poll, sleep, shutdown, release, await, awaitfin
	D     int    // delay ms (add/at/after) or sleep ms
	K     int    // target selector (index into the elements/tasks created so far, taken modulo)
	Wait  bool   // poll: waitIfEmpty
	Block bool   // task: callback blocks until the controller releases it
	Flags int    // shutdown flags
	ID    string // task executor identifier
}

func (o op) String() string {
	switch o.Kind {
	case "add", "at", "after":
		s := fmt.Sprintf("%s(%+dms", o.Kind, o.D)
		if o.ID != "" {
			s += ",id=" + o.ID
		}
		if o.Block {
			s += ",block"
		}

		return s + ")"
	case "cancel":
		if o.ID != "" {
			return "cancel(id=" + o.ID + ")"
		}

		return fmt.Sprintf("cancel(#%d)", o.K)
	case "poll":
		return fmt.Sprintf("poll(wait=%v)", o.Wait)
	case "sleep":
		return fmt.Sprintf("sleep(%dms)", o.D)
	case "shutdown":
		return "shutdown(" + flagName(o.Flags) + ")"
	default:
		return fmt.Sprintf("%s(#%d)", o.Kind, o.K)
	}
}

func opStrings(ops []op) []string {
	r := make([]string, len(ops))
	for i, o := range ops {
		r[i] = o.String()
	}

	return r
}

// runGuarded runs body in its own goroutine. body returns "" (ok) or a description of an oracle failure. If body does
// not return within budget (which already contains ctl.HangTimeout on top of everything the script can legitimately
// wait for) the case is reported as a hang together with a goroutine dump.
func runGuarded(budget time.Duration, body func() string) (failure string, hang bool) {
	res := make(chan string, 1)
	go func() {
		defer func() {
			if p := recover(); p != nil {
				res <- fmt.Sprintf("panic in the controller goroutine (inside a library call): %v\n%s", p, debug.Stack())
			}
		}()
		res <- body()
	}()
	select {
	case f := <-res:
		return f, false
	case <-time.After(budget):
		return "hang: controller script did not finish within " + budget.String() + "\n" + ctl.Dump(), true
	}
}

type fataler interface {
	Fatalf(format string, args ...any)
}

func fail(t fataler, check string, payload map[string]any, failure string) {
	payload["failure"] = failure
	if len(failure) > 4000 {
		payload["failure"] = failure[:4000]
	}
	stats.Violation(check, payload)
	t.Fatalf("%s: %s\ncase: %v", check, failure, payload["ops"])
}

func msOf(d time.Duration) float64 { return float64(d.Microseconds()) / 1000 }

func drawFlags(t *rapid.T, withNoWait bool) int {
	f := rapid.SampledFrom([]int{0, 0, fCancel, fIgnore, fCancel | fIgnore}).Draw(t, "flags")
	if withNoWait && rapid.IntRange(0, 2).Draw(t, "nowait") == 0 {
		f |= fNoWait
	}

	return f
}

// awaitFlag waits (bounded, polling) until cond holds. It only steers the interleaving (so that "the callback is
// running" is an observed fact when the next operation is issued); its outcome is never a verdict.
func awaitFlag(cond func() bool, max time.Duration) bool {
	deadline := time.Now().Add(max)
	for !cond() {
		if time.Now().After(deadline) {
			return false
		}
		time.Sleep(100 * time.Microsecond)
	}

	return true
}

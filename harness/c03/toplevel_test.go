package c03

import (
	"bytes"
	"encoding/hex"
	"fmt"
	"reflect"
	"testing"

	"pgregory.net/rapid"
	"verifharness/internal/serixgen"
	"verifharness/internal/stats"
)

// TestTopLevelDifferential: the forward differential and the canonical-form check for objects that are not fields of a
// struct: the collection, string, leaf, interface value or pointer is itself the argument of Encode/Decode and its
// settings travel with the call (serix.WithTypeSettings) instead of a struct tag.
func TestTopLevelDifferential(t *testing.T) {
	const check = "toplevel_differential"
	stats.Rule(check, "a top-level object is drawn: named pool collection (settings from the registry), unnamed slice (all array rules) / map / array of non-bytes / string / byte slice with settings passed by serix.WithTypeSettings, a leaf (numbers, bool, byte arrays, uint256, time), an interface value (Shape/Payload, encoded through its dynamic value and decoded through a pointer to the interface), a pool struct by value or pointer, a custom (de)serializable or a coded pointer; values half valid, half free; validation off and on. Oracle: Encode == reference encoder in bytes and in accept/reject; Decode of the bytes consumes all of them, yields an equal value and re-encodes to the same bytes. Distinct by (kind, shape, value); non-trivial = call-level settings or an interface value")
	rapid.Check(t, func(rt *rapid.T) {
		c := serixgen.NewCaseWithTop(rt, cfg())
		n := c.Top
		mode := serixgen.ValidMode
		if rapid.Bool().Draw(rt, "free") {
			mode = serixgen.FreeMode
		}
		v, vl := serixgen.GenValue(rt, n, mode, cfg())
		if (n.Kind == serixgen.KPtr || n.Kind == serixgen.KIface) && v.IsNil() {
			// a nil top-level object is not a value of any registered type (reflect.ValueOf(nil) is invalid)
			stats.Case(check, false, "", nil, "nil_top_level_object_skipped")
			return
		}
		render := func(x reflect.Value) string { return serixgen.Render(n, x) }
		fail := func(ex map[string]any, format string, a ...any) {
			msg := fmt.Sprintf(format, a...)
			p := map[string]any{"kind": c.TopKind, "schema": n.String(), "value": render(v), "problem": msg}
			for k, x := range ex {
				p[k] = x
			}
			stats.Violation(check, p)
			rt.Fatalf("%s: %s\nkind: %s\nschema: %s\nvalue: %s\nextra: %v", check, msg, c.TopKind, n.String(), render(v), ex)
		}
		labels := []string{"top:" + c.TopKind}
		for k := range vl {
			labels = append(labels, "value:"+k)
		}
		for _, validate := range []bool{false, true} {
			ref := serixgen.RefEncode(n, v, validate)
			enc := c.EncodeTop(v, validate)
			ex := map[string]any{"validate": validate}
			if ref.Reject != "" {
				labels = append(labels, fmt.Sprintf("must_reject(validate=%v)", validate))
				if enc.Panic != nil {
					labels = append(labels, "encode_panic_on_invalid_value")
					continue
				}
				if enc.Err == nil {
					ex["bytes"] = hex.EncodeToString(enc.Bytes)
					fail(ex, "Encode produced bytes for a value that has no encoding under the documented rules: %s", ref.Reject)
				}
				continue
			}
			if vl["unsatisfiable_rules"] && enc.Err != nil {
				labels = append(labels, "unsatisfiable_rules")
				continue
			}
			if enc.Panic != nil {
				fail(ex, "Encode panicked on an encodable value: %v", enc.Panic)
			}
			if enc.Err != nil {
				ex["reference"] = hex.EncodeToString(ref.B)
				fail(ex, "Encode refused a value whose documented encoding exists: %v", enc.Err)
			}
			if !bytes.Equal(enc.Bytes, ref.B) {
				ex["serix"], ex["reference"] = hex.EncodeToString(enc.Bytes), hex.EncodeToString(ref.B)
				fail(ex, "Encode output differs from the documented wire layout")
			}
			labels = append(labels, fmt.Sprintf("encodable(validate=%v)", validate))
			ex["bytes"] = hex.EncodeToString(enc.Bytes)
			dec := c.DecodeTop(enc.Bytes, validate)
			if dec.Panic != nil || dec.Err != nil {
				fail(ex, "Decode of Encode's output failed: panic=%v err=%v", dec.Panic, dec.Err)
			}
			if dec.N != len(enc.Bytes) {
				fail(ex, "Decode consumed %d of %d bytes", dec.N, len(enc.Bytes))
			}
			if d := serixgen.Equal(n, v, dec.Value); d != "" {
				ex["decoded"] = render(dec.Value)
				fail(ex, "decoded value differs: %s", d)
			}
			re := c.EncodeTop(dec.Value, validate)
			if re.Panic != nil || re.Err != nil || !bytes.Equal(re.Bytes, enc.Bytes) {
				fail(ex, "re-encoding the decoded value gives %x (err %v, panic %v)", re.Bytes, re.Err, re.Panic)
			}
		}
		stats.Case(check, c.TopCall != nil || n.Kind == serixgen.KIface, c.TopKind+"|"+n.String()+"|"+render(v), func() any {
			return map[string]any{"kind": c.TopKind, "schema": n.String(), "value": render(v)}
		}, labels...)
	})
}

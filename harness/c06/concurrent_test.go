package c06

import (
	"errors"
	"fmt"
	"runtime"
	"strings"
	"sync"
	"sync/atomic"
	"testing"
	"time"

	"github.com/anishathalye/porcupine"
	"github.com/iotaledger/hive.go/kvstore"
	"github.com/iotaledger/hive.go/kvstore/mapdb"
	"pgregory.net/rapid"
	"verifharness/internal/ctl"
	"verifharness/internal/stats"
)

func plainIntEncoder(v int) ([]byte, error) { return encodeInt(v), nil }
func plainIntDecoder(b []byte) (int, int, error) {
	v, err := decodeInt(b)

	return v, 8, err
}

// ---------------------------------------------------------------------------------------------
// program

type cOp struct {
	Kind  string // add set delete get has notchanged cfail
	Arg   int
	Yield bool // compute function yields the processor while Compute holds its lock; other kinds: yield before the call
}

func (o cOp) String() string {
	y := ""
	if o.Yield {
		y = "~"
	}
	if o.Kind == "add" || o.Kind == "set" {
		return fmt.Sprintf("%s%s(%d)", y, o.Kind, o.Arg)
	}

	return y + o.Kind
}

type cOut struct {
	V         int
	OK        bool // get: found; has: result
	Called    bool // compute: function was called
	ObsV      int  // compute: current value handed to the function
	ObsExists bool
	Err       string
}

type regState struct {
	exists bool
	v      int
}

// registerModel is the sequential specification: one optional int.
var registerModel = porcupine.Model{
	Init: func() interface{} { return regState{} },
	Step: func(state, input, output interface{}) (bool, interface{}) {
		st, in, out := state.(regState), input.(cOp), output.(cOut)
		sawState := out.Called && out.ObsExists == st.exists && (!st.exists || out.ObsV == st.v)
		switch in.Kind {
		case "get":
			return out.OK == st.exists && (!out.OK || out.V == st.v), st
		case "has":
			return out.OK == st.exists, st
		case "set":
			return true, regState{true, in.Arg}
		case "delete":
			return true, regState{}
		case "add":
			want := in.Arg
			if st.exists {
				want = st.v + in.Arg
			}

			return sawState && out.V == want, regState{true, want}
		case "notchanged":
			return sawState && (!st.exists || out.V == st.v), st
		case "cfail":
			return sawState, st
		}

		return false, st
	},
	Equal: func(a, b interface{}) bool { return a.(regState) == b.(regState) },
	DescribeOperation: func(input, output interface{}) string {
		return fmt.Sprintf("%v -> %+v", input.(cOp), output.(cOut))
	},
}

func genProgram(t *rapid.T) [][]cOp {
	g := rapid.IntRange(2, 6).Draw(t, "goroutines")
	kinds := []string{"add", "add", "add", "add", "set", "delete", "get", "get", "has", "notchanged", "cfail"}
	prog := make([][]cOp, g)
	setCounter := 0
	for i := range prog {
		n := rapid.IntRange(2, 8).Draw(t, "nOps")
		for j := 0; j < n; j++ {
			op := cOp{Kind: rapid.SampledFrom(kinds).Draw(t, "kind")}
			switch op.Kind {
			case "add":
				op.Arg = rapid.IntRange(1, 3).Draw(t, "k")
			case "set":
				setCounter++
				op.Arg = 1000 * setCounter // recognisable, unique per program
			}
			op.Yield = rapid.IntRange(0, 2).Draw(t, "yield") == 0
			prog[i] = append(prog[i], op)
		}
	}

	return prog
}

func progStrings(prog [][]cOp) []string {
	out := make([]string, len(prog))
	for i, ops := range prog {
		parts := make([]string, len(ops))
		for j, o := range ops {
			parts[j] = o.String()
		}
		out[i] = fmt.Sprintf("g%d: %s", i, strings.Join(parts, " "))
	}

	return out
}

func execOp(tv *kvstore.TypedValue[int], op cOp) (out cOut, unexpected error) {
	yield := func() {
		if op.Yield {
			runtime.Gosched()
		}
	}
	switch op.Kind {
	case "get":
		v, err := tv.Get()
		switch {
		case err == nil:
			out.V, out.OK = v, true
		case errors.Is(err, kvstore.ErrKeyNotFound):
		default:
			unexpected = err
		}
	case "has":
		out.OK, unexpected = tv.Has()
	case "set":
		unexpected = tv.Set(op.Arg)
	case "delete":
		unexpected = tv.Delete()
	case "add":
		out.V, unexpected = tv.Compute(func(cur int, exists bool) (int, error) {
			out.Called, out.ObsV, out.ObsExists = true, cur, exists
			yield()
			if !exists {
				return op.Arg, nil
			}

			return cur + op.Arg, nil
		})
	case "notchanged":
		out.V, unexpected = tv.Compute(func(cur int, exists bool) (int, error) {
			out.Called, out.ObsV, out.ObsExists = true, cur, exists
			yield()

			return cur + 4711, kvstore.ErrTypedValueNotChanged
		})
	case "cfail":
		var err error
		out.V, err = tv.Compute(func(cur int, exists bool) (int, error) {
			out.Called, out.ObsV, out.ObsExists = true, cur, exists
			yield()

			return cur - 4711, errCompute
		})
		if !errors.Is(err, errCompute) {
			unexpected = fmt.Errorf("compute function failed but Compute returned %v", err)
		}
	}
	if unexpected != nil {
		out.Err = unexpected.Error()
	}

	return out, unexpected
}

func TestTypedValueConcurrent(t *testing.T) {
	const check = "typedvalue_concurrent_linearizable"
	stats.Rule(check, "rapid draws a program of 2..6 goroutines x 2..8 operations (Compute add k, Set of a unique recognisable value, Delete, Get, Has, Compute aborting with NotChanged / failing) on one TypedValue[int] over mapdb; all goroutines start together; every operation is stamped with a logical clock and records what the compute function saw. The history is judged by porcupine against a one-register model (a lost update, a reader seeing a value nobody wrote, a Compute that read a stale value are all non-linearizable) and the final raw bytes must equal the model's final state of some linearization (checked through a closing Get/raw read appended to the history). Runs with -race. Non-trivial = operations of >=2 goroutines overlapped in logical time and >=1 of them was a writer")
	rapid.Check(t, func(rt *rapid.T) {
		prog := genProgram(rt)
		inner := mapdb.NewMapDB()
		tv := kvstore.NewTypedValue[int](inner, tvKey, plainIntEncoder, plainIntDecoder)
		var clock ctl.Clock
		histories := make([][]porcupine.Operation, len(prog))
		var unexpected atomic.Value
		var arrived atomic.Int32
		var wg sync.WaitGroup
		start := make(chan struct{})
		for g := range prog {
			wg.Add(1)
			go func(g int) {
				defer wg.Done()
				<-start
				for arrived.Add(1); int(arrived.Load()) < len(prog); {
					runtime.Gosched() // spin barrier: everybody is running before the first operation
				}
				for _, op := range prog[g] {
					if op.Yield && (op.Kind == "get" || op.Kind == "has" || op.Kind == "set" || op.Kind == "delete") {
						runtime.Gosched()
					}
					call := clock.Tick()
					out, err := execOp(tv, op)
					ret := clock.Tick()
					if err != nil {
						unexpected.Store(fmt.Sprintf("g%d %v: %v", g, op, err))
					}
					histories[g] = append(histories[g], porcupine.Operation{ClientId: g, Input: op, Call: call, Output: out, Return: ret})
				}
			}(g)
		}
		close(start)
		if !ctl.Within(ctl.HangTimeout, wg.Wait) {
			stats.Violation(check, map[string]any{"program": progStrings(prog), "problem": "hang"})
			rt.Fatalf("program did not finish within %v: %v\n%s", ctl.HangTimeout, progStrings(prog), ctl.Dump())
		}
		var ops []porcupine.Operation
		for _, h := range histories {
			ops = append(ops, h...)
		}
		// closing observations (sequential, after everything returned): typed Get and the raw bytes
		call := clock.Tick()
		out, uerr := execOp(tv, cOp{Kind: "get"})
		ops = append(ops, porcupine.Operation{ClientId: len(prog), Input: cOp{Kind: "get"}, Call: call, Output: out, Return: clock.Tick()})
		rawOut := cOut{}
		if raw, err := inner.Get(tvKey); err == nil {
			v, derr := decodeInt(raw)
			if derr != nil {
				uerr = fmt.Errorf("raw bytes %x do not decode", raw)
			}
			rawOut.V, rawOut.OK = v, true
		}
		call = clock.Tick()
		ops = append(ops, porcupine.Operation{ClientId: len(prog), Input: cOp{Kind: "get"}, Call: call, Output: rawOut, Return: clock.Tick()})

		render := func() []string {
			var lines []string
			for _, o := range ops {
				lines = append(lines, fmt.Sprintf("g%d [%d,%d] %v -> %+v", o.ClientId, o.Call, o.Return, o.Input, o.Output))
			}

			return lines
		}
		if u := unexpected.Load(); u != nil || uerr != nil {
			stats.Violation(check, map[string]any{"program": progStrings(prog), "problem": fmt.Sprint(u, uerr), "history": render()})
			rt.Fatalf("unexpected error on a healthy store: %v %v\nprogram=%v", u, uerr, progStrings(prog))
		}

		// non-trivial: overlapping operations of different goroutines, one of them a writer
		overlap := false
		for i := range ops {
			for j := range ops {
				a, b := ops[i], ops[j]
				if a.ClientId != b.ClientId && a.Call < b.Return && b.Call < a.Return {
					k := a.Input.(cOp).Kind
					if k == "add" || k == "set" || k == "delete" {
						overlap = true
					}
				}
			}
		}
		labels := []string{fmt.Sprintf("goroutines_%d", len(prog))}
		if overlap {
			labels = append(labels, "overlapping_writer")
		}

		res := porcupine.CheckOperationsTimeout(registerModel, ops, 30*time.Second)
		switch res {
		case porcupine.Illegal:
			stats.Case(check, overlap, strings.Join(progStrings(prog), "|"), func() any { return progStrings(prog) }, labels...)
			stats.Violation(check, map[string]any{"program": progStrings(prog), "problem": "history is not linearizable w.r.t. a single optional int register", "history": render()})
			rt.Fatalf("history not linearizable (lost update / stale read / unwritten value)\nprogram=%v\nhistory=\n%s", progStrings(prog), strings.Join(render(), "\n"))
		case porcupine.Unknown:
			labels = append(labels, "judge_timeout_inconclusive")
		}
		stats.Case(check, overlap, strings.Join(progStrings(prog), "|"), func() any { return progStrings(prog) }, labels...)
	})
}

// TestTypedValueCounter: no lost update under heavy contention, readers only ever see written values.
func TestTypedValueCounter(t *testing.T) {
	const check = "typedvalue_concurrent_counter"
	stats.Rule(check, "rapid draws n=2..8 writer goroutines x m=20..200 Compute(v->v+1) on one TypedValue[int], r=1..3 reader goroutines calling Get/Has in a loop, optionally one initial Set; final typed value and raw bytes must equal start+n*m, every Compute result is unique, readers see a non-decreasing sequence within [start, start+n*m]. Runs with -race. Every case is non-trivial (contended by construction)")
	rapid.Check(t, func(rt *rapid.T) {
		n := rapid.IntRange(2, 8).Draw(rt, "writers")
		m := rapid.IntRange(20, 200).Draw(rt, "increments")
		readers := rapid.IntRange(1, 3).Draw(rt, "readers")
		startVal := rapid.SampledFrom([]int{-1, 0, 7}).Draw(rt, "start") // -1: key absent at start
		desc := fmt.Sprintf("writers=%d increments=%d readers=%d start=%d", n, m, readers, startVal)
		inner := mapdb.NewMapDB()
		tv := kvstore.NewTypedValue[int](inner, tvKey, plainIntEncoder, plainIntDecoder)
		base := 0
		if startVal >= 0 {
			base = startVal
			if err := tv.Set(startVal); err != nil {
				rt.Fatalf("Set: %v", err)
			}
		}
		bad := func(format string, args ...any) {
			msg := fmt.Sprintf(format, args...)
			stats.Violation(check, map[string]any{"program": desc, "problem": msg})
			rt.Fatalf("%s (%s)", msg, desc)
		}
		results := make([][]int, n)
		var problem atomic.Value
		var stop atomic.Bool
		var wg, rwg sync.WaitGroup
		start := make(chan struct{})
		for i := 0; i < n; i++ {
			wg.Add(1)
			go func(i int) {
				defer wg.Done()
				<-start
				for j := 0; j < m; j++ {
					v, err := tv.Compute(func(cur int, exists bool) (int, error) {
						if !exists {
							return 1, nil
						}

						return cur + 1, nil
					})
					if err != nil {
						problem.Store(fmt.Sprintf("Compute failed on a healthy store: %v", err))

						return
					}
					results[i] = append(results[i], v)
				}
			}(i)
		}
		for i := 0; i < readers; i++ {
			rwg.Add(1)
			go func() {
				defer rwg.Done()
				<-start
				last := base
				for !stop.Load() {
					v, err := tv.Get()
					if err != nil {
						if !errors.Is(err, kvstore.ErrKeyNotFound) || startVal >= 0 || last != base {
							problem.Store(fmt.Sprintf("reader: Get failed with %v after having seen %d", err, last))

							return
						}

						continue
					}
					if v < last || v > base+n*m {
						problem.Store(fmt.Sprintf("reader saw %d after %d (values only grow, maximum is %d)", v, last, base+n*m))

						return
					}
					last = v
					if has, err := tv.Has(); err != nil || !has {
						problem.Store(fmt.Sprintf("reader: Has = (%v, %v) after Get returned %d", has, err, v))

						return
					}
				}
			}()
		}
		close(start)
		ok := ctl.Within(ctl.HangTimeout, wg.Wait)
		stop.Store(true)
		if !ok || !ctl.Within(ctl.HangTimeout, rwg.Wait) {
			bad("goroutines did not finish within %v\n%s", ctl.HangTimeout, ctl.Dump())
		}
		if p := problem.Load(); p != nil {
			bad("%v", p)
		}
		seen := map[int]bool{}
		for i := range results {
			for j, v := range results[i] {
				if seen[v] {
					bad("two Compute calls both returned %d: an update was lost", v)
				}
				seen[v] = true
				if j > 0 && v <= results[i][j-1] {
					bad("writer %d got %d after %d", i, v, results[i][j-1])
				}
			}
		}
		want := base + n*m
		if v, err := tv.Get(); err != nil || v != want {
			bad("final Get = (%d, %v), want %d: updates were lost", v, err, want)
		}
		raw, err := inner.Get(tvKey)
		if v, derr := decodeInt(raw); err != nil || derr != nil || v != want {
			bad("final raw bytes %x (%v), want the encoding of %d", raw, err, want)
		}
		stats.Case(check, true, desc, func() any { return desc })
	})
}

package c17

import (
	"fmt"
	"testing"

	"verifharness/internal/stats"
)

func replay(t *testing.T, s script, inj *injection) {
	t.Helper()
	stats.Rule("regression", "fixed replay cases of the defects found (no rapid)")
	res := runScript(s, inj)
	stats.Case("regression", true, s.key()+fmt.Sprint(inj), s.sample)
	if res.Kind != "" {
		stats.Violation("regression", res.payload(s, inj))
		t.Fatalf("%s: %s\nscript: %v order %v\ntrace:\n  %s", res.Kind, res.Violation, s.progStrings(), s.Order, joinLines(res.Trace))
	}
	if inj != nil && !res.Injected {
		t.Fatalf("harness: the wrong unlock was not executed")
	}
}

// D22a: StarvingMutex.Unlock on a mutex nobody holds returned normally.
func TestRegressionStarvingUnlockOfUnlockedMutex(t *testing.T) {
	replay(t, script{Mutex: "starving", Progs: [][]op{pair(true, 0)}, Order: []int{0, 0}}, &injection{Pos: 0, Op: unlockOp(0)})
	replay(t, script{Mutex: "starving", Progs: [][]op{pair(true, 0)}, Order: []int{0, 0}}, &injection{Pos: 2, Op: unlockOp(0)})
}

// D22b: RUnlock while a writer holds the StarvingMutex (and Unlock while readers hold it) panicked
// with the internal mutex still locked: the legitimate holder could never unlock again.
func TestRegressionStarvingWrongModeUnlockLeavesMutexUsable(t *testing.T) {
	replay(t, script{Mutex: "starving", Progs: [][]op{pair(true, 0)}, Order: []int{0, 0}}, &injection{Pos: 1, Op: runlockOp(0)})
	replay(t, script{Mutex: "starving", Progs: [][]op{pair(false, 0)}, Order: []int{0, 0}}, &injection{Pos: 1, Op: unlockOp(0)})
}

// D22c: DAGMutex.Unlock of an entity that one goroutine holds for READING (and RUnlock of one held
// for WRITING) silently dropped the entity instead of panicking.
func TestRegressionDAGWrongModeUnlockSingleConsumer(t *testing.T) {
	replay(t, script{Mutex: "dag", Progs: [][]op{pair(false, 0)}, Order: []int{0, 0}}, &injection{Pos: 1, Op: unlockOp(0)})
	replay(t, script{Mutex: "dag", Progs: [][]op{pair(true, 0)}, Order: []int{0, 0}}, &injection{Pos: 1, Op: runlockOp(0)})
}

// D22d: DAGMutex.Unlock of an entity nobody registered panicked with the DAGMutex's own mutex still
// locked: every later operation on any entity blocked for ever.
func TestRegressionDAGUnlockOfUnknownEntityLeavesMutexUsable(t *testing.T) {
	replay(t, script{Mutex: "dag", Progs: [][]op{pair(true, 1)}, Order: []int{0, 0}}, &injection{Pos: 0, Op: unlockOp(0)})
}

// D22e: wrong-mode unlock with two consumers panicked, but only after the consumer count had been
// decremented: the next legitimate RUnlock dropped the entity and the last one panicked.
func TestRegressionDAGWrongModeUnlockKeepsConsumerCount(t *testing.T) {
	replay(t, script{Mutex: "dag", Progs: [][]op{pair(false, 0), pair(false, 0)}, Order: []int{0, 1, 0, 1}}, &injection{Pos: 2, Op: unlockOp(0)})
	// writer holds, a reader is queued behind it: a stray RUnlock must not make the writer's Unlock skip the wake-up
	replay(t, script{Mutex: "dag", Progs: [][]op{pair(true, 0), pair(false, 0)}, Order: []int{0, 1, 0, 1}}, &injection{Pos: 2, Op: runlockOp(0)})
}

// D21: SignalShutdown between a PopOrWait's evaluation of its wait condition and its going to sleep.
func TestRegressionStackShutdownWindow(t *testing.T) {
	stats.Rule("regression", "fixed replay cases of the defects found (no rapid)")
	for _, c := range []windowCase{{0, false}, {2, true}} {
		stats.Case("regression", true, fmt.Sprint("window", c), func() any { return c })
		if v := runShutdownWindow(c); v != "" {
			stats.Violation("regression", map[string]any{"case": c, "observed": v})
			t.Fatalf("%s (case %+v)", v, c)
		}
	}
}

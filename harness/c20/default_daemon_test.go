package c20

import (
	"context"
	"errors"
	"fmt"
	"sort"
	"sync/atomic"
	"testing"

	"github.com/iotaledger/hive.go/app/daemon"
	"verifharness/internal/ctl"
	"verifharness/internal/stats"
)

// TestDefaultDaemonShutdownOrder drives the package-level functions (daemon.BackgroundWorker, Start, ShutdownAndWait,
// ...), which forward to the process-wide default daemon. That instance can be shut down once per process, so this is
// one fixed scenario per test process; the orders are permuted with the process seed.
func TestDefaultDaemonShutdownOrder(t *testing.T) {
	const check = "default_daemon_shutdown_order"
	stats.Rule(check, "package-level API, one scenario per test process (the default daemon cannot be restarted): 7 workers with orders {-5,0,1,3,3,7,MaxInt} assigned to names by a seed-dependent rotation, two of them registered after daemon.Start, one duplicate registration of a running name (must be refused); daemon.ShutdownAndWait under the 20 s watchdog. Oracle: refusal error; GetRunningBackgroundWorkers lists all 7; no worker cancelled before every higher-order worker returned; all returned when ShutdownAndWait returns; IsStopped and not IsRunning; registering afterwards is refused. Distinct by rotation")
	orders := []int{-5, 0, 1, 3, 3, 7, int(^uint(0) >> 1)}
	rot := int(stats.Seed() % uint64(len(orders)))
	desc := fmt.Sprintf("rotation=%d", rot)
	fail := func(format string, a ...any) {
		msg := fmt.Sprintf(format, a...)
		stats.Violation(check, map[string]any{"config": desc, "problem": msg})
		t.Fatalf("%s: %s", desc, msg)
	}
	if daemon.IsStopped() {
		t.Skip("the default daemon of this process was already shut down")
	}
	n := len(orders)
	var clock ctl.Clock
	cancelled := make([]atomic.Int64, n)
	returned := make([]atomic.Int64, n)
	order := func(i int) int { return orders[(i+rot)%n] }
	handler := func(i int) daemon.WorkerFunc {
		return func(ctx context.Context) {
			<-ctx.Done()
			cancelled[i].Store(clock.Tick())
			returned[i].Store(clock.Tick())
		}
	}
	for i := 0; i < n-2; i++ {
		if err := daemon.BackgroundWorker(fmt.Sprintf("d%d", i), handler(i), order(i)); err != nil {
			fail("registering d%d: %v", i, err)
		}
	}
	daemon.Start()
	for i := n - 2; i < n; i++ {
		if err := daemon.BackgroundWorker(fmt.Sprintf("d%d", i), handler(i), order(i)); err != nil {
			fail("registering d%d after Start: %v", i, err)
		}
	}
	if err := daemon.BackgroundWorker("d0", func(context.Context) {}, 100); !errors.Is(err, daemon.ErrExistingBackgroundWorkerStillRunning) {
		fail("registering the running name d0 again returned %v, want ErrExistingBackgroundWorkerStillRunning", err)
	}
	running := daemon.GetRunningBackgroundWorkers()
	sort.Strings(running)
	if len(running) != n {
		fail("GetRunningBackgroundWorkers = %v, want all %d workers", running, n)
	}
	if !ctl.WithinHang(daemon.ShutdownAndWait) {
		fail("ShutdownAndWait did not return\n%s", ctl.Dump())
	}
	tRet := clock.Tick()
	for i := 0; i < n; i++ {
		if returned[i].Load() == 0 || returned[i].Load() > tRet {
			fail("ShutdownAndWait returned while d%d (order %d) had not returned", i, order(i))
		}
		for j := 0; j < n; j++ {
			if order(j) > order(i) && cancelled[i].Load() < returned[j].Load() {
				fail("d%d (order %d) was cancelled at %d before d%d (order %d) returned at %d", i, order(i), cancelled[i].Load(), j, order(j), returned[j].Load())
			}
		}
	}
	if !daemon.IsStopped() || daemon.IsRunning() {
		fail("after ShutdownAndWait: IsStopped=%v IsRunning=%v", daemon.IsStopped(), daemon.IsRunning())
	}
	if err := daemon.BackgroundWorker("late", func(context.Context) {}); err == nil {
		fail("a worker could be registered after the shutdown")
	}
	stats.Case(check, true, desc, func() any { return desc })
}

package c08

import (
	"strings"
	"testing"

	"github.com/iotaledger/hive.go/kvstore"
)

func mustHold(t *testing.T, p program) {
	t.Helper()
	if res := execute(p); res.violation != "" {
		t.Fatalf("%s\nprogram:\n  %s\nhistory:\n  %s", res.violation, strings.Join(p.strings(), "\n  "), strings.Join(res.history, "\n  "))
	}
}

// TestRegressionStopReturnsBeforeWrite replays the shrunk case of D8 without rapid: one Enqueue, then StopBatchWriter.
// Stop must not return before the object is written and BatchWriteDone was called. (The writer goroutine used to
// register itself with the WaitGroup, so a Stop that ran before the goroutine was scheduled waited for nothing.)
func TestRegressionStopReturnsBeforeWrite(t *testing.T) {
	for i := 0; i < 40; i++ {
		mustHold(t, program{
			Cfg: config{QueueSize: 4, BatchSize: 2, TimeoutUS: 500}, NObj: 1,
			Producers: [][]pStep{{{Kind: "enq", Obj: 0}}}, StopAfter: 1, InlineStop: true, SecondStop: "none",
		})
	}
}

// TestRegressionEnqueueRacingStopBuffered replays D9 (buffered queue): a producer has passed Enqueue's running check
// when StopBatchWriter runs to completion; the object must not end up accepted (marked scheduled, counted, queued) by a
// writer that is already gone.
func TestRegressionEnqueueRacingStopBuffered(t *testing.T) {
	mustHold(t, program{
		Cfg: config{QueueSize: 4, BatchSize: 2, TimeoutUS: 500}, NObj: 1,
		Producers: [][]pStep{{{Kind: "enq", Obj: 0}}}, StopAfter: 2, SecondStop: "none",
		Hook: &hookPlan{Producer: 0, EnqIndex: 0, Site: kvstore.VerifEnqueueAfterRunningCheck},
	})
}

// TestRegressionEnqueueRacingStopUnbuffered: same schedule with an unbuffered queue: Enqueue used to block forever on
// the queue send because nobody receives any more.
func TestRegressionEnqueueRacingStopUnbuffered(t *testing.T) {
	mustHold(t, program{
		Cfg: config{QueueSize: 0, BatchSize: 2, TimeoutUS: 500}, NObj: 2,
		Producers: [][]pStep{{{Kind: "enq", Obj: 0}, {Kind: "enq", Obj: 1}}}, StopAfter: 3, SecondStop: "none",
		Hook: &hookPlan{Producer: 0, EnqIndex: 1, Site: kvstore.VerifEnqueueAfterRunningCheck},
	})
}

package c12

import (
	"errors"
	"fmt"
	"sort"
	"strings"
	"testing"

	"github.com/iotaledger/hive.go/ds/onchangemap"
	"github.com/iotaledger/hive.go/runtime/options"
	"pgregory.net/rapid"
	"verifharness/internal/stats"
)

type ocID int

func (i ocID) Key() int       { return int(i) }
func (i ocID) String() string { return fmt.Sprintf("item-%d", int(i)) }

type ocItem struct {
	id    ocID
	value int
}

func (i *ocItem) ID() ocID { return i.id }
func (i *ocItem) Clone() onchangemap.Item[int, ocID] {
	return &ocItem{id: i.id, value: i.value}
}

type ocMap = onchangemap.OnChangeMap[int, ocID, *ocItem]

var (
	errOCChanged = errors.New("changed callback failed")
	errOCItem    = errors.New("item callback failed")
)

func ocRender(items []*ocItem) string {
	parts := make([]string, 0, len(items))
	for _, it := range items {
		parts = append(parts, fmt.Sprintf("%d=%d", it.id, it.value))
	}
	sort.Strings(parts)
	return "[" + strings.Join(parts, " ") + "]"
}

func ocRenderModel(m map[int]int) string {
	parts := make([]string, 0, len(m))
	for k, v := range m {
		parts = append(parts, fmt.Sprintf("%d=%d", k, v))
	}
	sort.Strings(parts)
	return "[" + strings.Join(parts, " ") + "]"
}

const ocUniverse = 5

// TestOnChangeMap: a keyed store whose callbacks mirror every change. With callbacks enabled each
// successful Add / Modify(returning true) / Delete runs the changed-callback with the current items and
// then the matching item callback with the affected item - also when the changed-callback failed: the change stays
// applied, so every registered callback has to hear about it -; nothing else runs callbacks; every callback error is
// returned to the caller; Get/All/Modify return clones.
func TestOnChangeMap(t *testing.T) {
	const check = "onchangemap"
	stats.Rule(check, "rapid state machine over onchangemap.OnChangeMap[int,id,*item], ids 0..4; which of the four callbacks are registered is drawn per history, CallbacksEnabled and failing-callback switches are actions; Add/Modify(true|false)/Delete/Get/All/ExecuteChangedCallback vs map id->value plus the exact expected callback log per call (changed-callback payload compared as a multiset), returned errors (errors.Is on every failing callback's error; a failing changed-callback does not keep the item callback from mirroring the change), clone isolation; non-trivial = callbacks fired for at least two kinds of change and at least one of {a callback failed, Modify returned false, a change ran with callbacks disabled}; distinct by (registered callbacks, operation list)")
	rapid.Check(t, func(rt *rapid.T) {
		regChanged := rapid.IntRange(0, 4).Draw(rt, "regChanged") != 0
		regAdded := rapid.IntRange(0, 4).Draw(rt, "regAdded") != 0
		regModified := rapid.IntRange(0, 4).Draw(rt, "regModified") != 0
		regDeleted := rapid.IntRange(0, 4).Draw(rt, "regDeleted") != 0
		h := newHist(check, fmt.Sprintf("callbacks(changed=%v,added=%v,modified=%v,deleted=%v)", regChanged, regAdded, regModified, regDeleted))
		defer h.guard(rt)

		var log []string
		failChanged, failItem := false, false
		itemCB := func(kind string) func(*ocItem) error {
			return func(it *ocItem) error {
				log = append(log, fmt.Sprintf("%s(%d=%d)", kind, it.id, it.value))
				if failItem {
					return errOCItem
				}
				return nil
			}
		}
		var opts []options.Option[ocMap]
		if regChanged {
			opts = append(opts, onchangemap.WithChangedCallback[int, ocID](func(items []*ocItem) error {
				log = append(log, "changed"+ocRender(items))
				if failChanged {
					return errOCChanged
				}
				return nil
			}))
		}
		if regAdded {
			opts = append(opts, onchangemap.WithItemAddedCallback[int, ocID](itemCB("added")))
		}
		if regModified {
			opts = append(opts, onchangemap.WithItemModifiedCallback[int, ocID](itemCB("modified")))
		}
		if regDeleted {
			opts = append(opts, onchangemap.WithItemDeletedCallback[int, ocID](itemCB("deleted")))
		}
		m := onchangemap.NewOnChangeMap[int, ocID, *ocItem](opts...)
		model := map[int]int{}
		enabled := false
		firedKinds := map[string]struct{}{}
		id := rapid.IntRange(0, ocUniverse-1)
		val := rapid.IntRange(0, 99)

		// expect computes the callback log and error a change of the given kind must produce, given the
		// model state AFTER the change.
		// The change is applied (and kept) whatever the callbacks answer, so BOTH callbacks have to mirror it: a failing
		// changed-callback must not keep the item callback from hearing about the change. Every callback error has to
		// reach the caller.
		expect := func(kind string, registered bool, k, v int) (wantLog []string, wantErrs []error) {
			if !enabled {
				h.label("change_with_callbacks_disabled")
				return nil, nil
			}
			firedKinds[kind] = struct{}{}
			if regChanged {
				wantLog = append(wantLog, "changed"+ocRenderModel(model))
				if failChanged {
					h.label("changed_callback_failed")
					wantErrs = append(wantErrs, errOCChanged)
				}
			}
			if registered {
				wantLog = append(wantLog, fmt.Sprintf("%s(%d=%d)", kind, k, v))
				if failItem {
					h.label("item_callback_failed")
					wantErrs = append(wantErrs, errOCItem)
				}
				if regChanged && failChanged {
					h.label("item_callback_after_failed_changed_callback")
				}
			}
			return wantLog, wantErrs
		}
		compare := func(rt *rapid.T, what string, err error, wantLog []string, wantErrs []error) {
			if !equalStrings(log, wantLog) {
				h.fail(rt, "%s ran callbacks %v, want %v (a change that is kept has to reach every registered callback)", what, log, wantLog)
			}
			if len(wantErrs) == 0 && err != nil {
				h.fail(rt, "%s returned error %q, want nil", what, err)
			}
			for _, wantErr := range wantErrs {
				if !errors.Is(err, wantErr) {
					h.fail(rt, "%s returned error %v, want an error wrapping %q", what, err, wantErr)
				}
			}
		}

		acts := weighted{}
		acts.add("Add", 5, func(rt *rapid.T) {
			k, v := id.Draw(rt, "id"), val.Draw(rt, "v")
			log = nil
			err := m.Add(&ocItem{id: ocID(k), value: v})
			h.op("Add(%d=%d) err=%v cb=%v", k, v, err != nil, log)
			if _, exists := model[k]; exists {
				if err == nil || len(log) != 0 {
					h.fail(rt, "Add(%d) of an existing id: err=%v, callbacks %v; want an error and no callbacks", k, err, log)
				}
				h.label("add_duplicate")
				return
			}
			model[k] = v
			wantLog, wantErr := expect("added", regAdded, k, v)
			compare(rt, fmt.Sprintf("Add(%d=%d)", k, v), err, wantLog, wantErr)
		})
		acts.add("Modify", 5, func(rt *rapid.T) {
			k, v := id.Draw(rt, "id"), val.Draw(rt, "v")
			doModify := rapid.IntRange(0, 3).Draw(rt, "modify") != 0
			log = nil
			cbCalls, cbSaw := 0, -1
			res, err := m.Modify(ocID(k), func(it *ocItem) bool {
				cbCalls++
				cbSaw = it.value
				if doModify {
					it.value = v
				}
				return doModify
			})
			h.op("Modify(%d->%d,%v) err=%v cb=%v", k, v, doModify, err != nil, log)
			old, exists := model[k]
			if !exists {
				if err == nil || cbCalls != 0 || len(log) != 0 || res != nil {
					h.fail(rt, "Modify(%d) of a missing id: err=%v, modifier calls %d, callbacks %v, result %v; want an error and nothing else", k, err, cbCalls, log, res)
				}
				return
			}
			if cbCalls != 1 || cbSaw != old {
				h.fail(rt, "Modify(%d): modifier called %d times and saw value %d, want 1 call seeing %d", k, cbCalls, cbSaw, old)
			}
			var wantLog []string
			var wantErr []error
			if doModify {
				model[k] = v
				wantLog, wantErr = expect("modified", regModified, k, v)
			} else {
				h.label("modify_returned_false")
			}
			compare(rt, fmt.Sprintf("Modify(%d->%d,%v)", k, v, doModify), err, wantLog, wantErr)
			if res == nil || int(res.id) != k || res.value != model[k] {
				h.fail(rt, "Modify(%d) returned item %+v, want id %d value %d", k, res, k, model[k])
			}
			res.value = -1 // must be a clone
		})
		acts.add("Delete", 4, func(rt *rapid.T) {
			k := id.Draw(rt, "id")
			log = nil
			err := m.Delete(ocID(k))
			h.op("Delete(%d) err=%v cb=%v", k, err != nil, log)
			v, exists := model[k]
			if !exists {
				if err == nil || len(log) != 0 {
					h.fail(rt, "Delete(%d) of a missing id: err=%v, callbacks %v; want an error and no callbacks", k, err, log)
				}
				return
			}
			delete(model, k)
			wantLog, wantErr := expect("deleted", regDeleted, k, v)
			compare(rt, fmt.Sprintf("Delete(%d)", k), err, wantLog, wantErr)
		})
		acts.add("Get", 2, func(rt *rapid.T) {
			k := id.Draw(rt, "id")
			log = nil
			it, err := m.Get(ocID(k))
			h.op("Get(%d) err=%v", k, err != nil)
			v, exists := model[k]
			if len(log) != 0 {
				h.fail(rt, "Get(%d) ran callbacks %v", k, log)
			}
			if !exists {
				if err == nil || it != nil {
					h.fail(rt, "Get(%d) of a missing id = (%v,%v), want an error", k, it, err)
				}
				return
			}
			if err != nil || it == nil || int(it.id) != k || it.value != v {
				h.fail(rt, "Get(%d) = (%+v,%v), want id %d value %d", k, it, err, k, v)
			}
			it.value = -1 // must be a clone
		})
		acts.add("All", 1, func(rt *rapid.T) {
			log = nil
			all := m.All()
			h.op("All() size=%d", len(all))
			if len(log) != 0 {
				h.fail(rt, "All ran callbacks %v", log)
			}
			got := map[int]int{}
			for k, it := range all {
				if it == nil || int(it.id) != k {
					h.fail(rt, "All: key %d maps to item %+v", k, it)
				}
				got[k] = it.value
				it.value = -1 // must be clones
			}
			if !equalMaps(got, model) {
				h.fail(rt, "All = %v, model %v", got, model)
			}
		})
		acts.add("ExecuteChangedCallback", 1, func(rt *rapid.T) {
			log = nil
			err := m.ExecuteChangedCallback()
			h.op("ExecuteChangedCallback() err=%v cb=%v", err != nil, log)
			var wantLog []string
			var wantErr []error
			if enabled && regChanged {
				wantLog = []string{"changed" + ocRenderModel(model)}
				if failChanged {
					wantErr = []error{errOCChanged}
				}
			}
			compare(rt, "ExecuteChangedCallback", err, wantLog, wantErr)
		})
		acts.add("CallbacksEnabled", 2, func(rt *rapid.T) {
			on := rapid.IntRange(0, 3).Draw(rt, "on") != 0
			m.CallbacksEnabled(on)
			h.op("CallbacksEnabled(%v)", on)
			enabled = on
		})
		acts.add("SetFailing", 1, func(rt *rapid.T) {
			failChanged = rapid.IntRange(0, 3).Draw(rt, "failChanged") == 0
			failItem = rapid.IntRange(0, 2).Draw(rt, "failItem") == 0
			h.op("callbacks fail: changed=%v item=%v", failChanged, failItem)
		})
		acts[""] = func(rt *rapid.T) {
			log = nil
			all := m.All()
			got := map[int]int{}
			for k, it := range all {
				got[k] = it.value
			}
			if !equalMaps(got, model) || len(log) != 0 {
				h.fail(rt, "All = %v (callbacks %v), model %v", got, log, model)
			}
		}
		rt.Repeat(acts)
		h.done(len(firedKinds) >= 2 && (h.has("changed_callback_failed") || h.has("item_callback_failed") || h.has("modify_returned_false") || h.has("change_with_callbacks_disabled")))
	})
}

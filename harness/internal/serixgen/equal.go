package serixgen

import (
	"bytes"
	"context"
	"fmt"
	"math"
	"math/big"
	"reflect"
	"sort"
	"time"

	"github.com/iotaledger/hive.go/serializer/v2/serix"
)

// Equal is the structural model equality between an original value a and a decoded value b of node n:
// floats by bit pattern, nil == empty for slices/maps/byte slices (the format cannot tell them apart), times by
// their (saturated) nanosecond stamp, big ints by value, slices that the settings tell the encoder to sort are
// compared as sorted sequences. It returns a description of the first difference.
func Equal(n *Node, a, b reflect.Value) string { return equal(n, a, b, "$", false) }

// EqualJSON is Equal for the JSON/map form, where every NaN is the same NaN.
func EqualJSON(n *Node, a, b reflect.Value) string { return equal(n, a, b, "$", true) }

func equal(n *Node, a, b reflect.Value, path string, json bool) string {
	switch n.Kind {
	case KBool:
		if a.Bool() != b.Bool() {
			return fmt.Sprintf("%s: bool %v != %v", path, a.Bool(), b.Bool())
		}
	case KInt8, KInt16, KInt32, KInt64:
		if a.Int() != b.Int() {
			return fmt.Sprintf("%s: int %d != %d", path, a.Int(), b.Int())
		}
	case KUint8, KUint16, KUint32, KUint64:
		if a.Uint() != b.Uint() {
			return fmt.Sprintf("%s: uint %d != %d", path, a.Uint(), b.Uint())
		}
	case KFloat32:
		fa, _ := a.Convert(numTypes[KFloat32]).Interface().(float32)
		fb, _ := b.Convert(numTypes[KFloat32]).Interface().(float32)
		if json && fa != fa && fb != fb {
			return ""
		}
		if math.Float32bits(fa) != math.Float32bits(fb) {
			return fmt.Sprintf("%s: float32 bits %08x != %08x", path, math.Float32bits(fa), math.Float32bits(fb))
		}
	case KFloat64:
		if json && a.Float() != a.Float() && b.Float() != b.Float() {
			return ""
		}
		if math.Float64bits(a.Float()) != math.Float64bits(b.Float()) {
			return fmt.Sprintf("%s: float64 bits %016x != %016x", path, math.Float64bits(a.Float()), math.Float64bits(b.Float()))
		}
	case KString:
		if a.String() != b.String() {
			return fmt.Sprintf("%s: string %q != %q", path, a.String(), b.String())
		}
	case KBytes:
		if !bytes.Equal(a.Bytes(), b.Bytes()) {
			return fmt.Sprintf("%s: bytes %x != %x", path, a.Bytes(), b.Bytes())
		}
	case KByteArr:
		for i := 0; i < n.N; i++ {
			if a.Index(i).Uint() != b.Index(i).Uint() {
				return fmt.Sprintf("%s: byte array differs at %d", path, i)
			}
		}
	case KBigInt:
		ba, bb := BigOf(a), BigOf(b)
		if (ba == nil) != (bb == nil) {
			return fmt.Sprintf("%s: big.Int nil-ness differs", path)
		}
		if ba != nil {
			if ba.Cmp(bb) != 0 {
				return fmt.Sprintf("%s: big.Int %s != %s", path, ba, bb)
			}
		}
	case KTime:
		ta, _ := a.Interface().(time.Time)
		tb, _ := b.Interface().(time.Time)
		if TimeNanos(ta) != TimeNanos(tb) {
			return fmt.Sprintf("%s: time %d != %d (saturated nanos)", path, TimeNanos(ta), TimeNanos(tb))
		}
	case KSlice, KArray:
		if a.Len() != b.Len() {
			return fmt.Sprintf("%s: length %d != %d", path, a.Len(), b.Len())
		}
		ia, ib := indices(a.Len()), indices(b.Len())
		if n.S.LexSort && n.S.LexValid {
			ia, ib = sortedIdx(n.Elem, a), sortedIdx(n.Elem, b)
		}
		for i := range ia {
			if d := equal(n.Elem, a.Index(ia[i]), b.Index(ib[i]), fmt.Sprintf("%s[%d]", path, i), json); d != "" {
				return d
			}
		}
	case KMap:
		if a.Len() != b.Len() {
			return fmt.Sprintf("%s: map size %d != %d", path, a.Len(), b.Len())
		}
		it := a.MapRange()
		for it.Next() {
			bv := b.MapIndex(it.Key())
			if !bv.IsValid() {
				return fmt.Sprintf("%s: key %v missing", path, it.Key().Interface())
			}
			if d := equal(n.Elem, it.Value(), bv, fmt.Sprintf("%s[%v]", path, it.Key().Interface()), json); d != "" {
				return d
			}
		}
	case KStruct:
		for _, f := range n.Fields {
			fa, fb := a.Field(f.Index), b.Field(f.Index)
			fp := path + "." + f.GoName
			if f.Embedded && f.EmbPtr {
				if fa.IsNil() != fb.IsNil() {
					return fp + ": embedded pointer nil-ness differs"
				}
				if !fa.IsNil() {
					if d := equal(f.N.Elem, fa.Elem(), fb.Elem(), fp, json); d != "" {
						return d
					}
				}
				continue
			}
			if json && f.OmitEmpty && isEmptyValue(fa) {
				// omitempty: an empty value (reflect zero, or an empty slice) is absent from the document and reads
				// back as the zero value / an empty slice
				if !isEmptyValue(fb) {
					return fmt.Sprintf("%s: omitempty field was empty but reads back non-empty", fp)
				}
				continue
			}
			if f.Optional {
				if fa.IsNil() != fb.IsNil() {
					return fmt.Sprintf("%s: optional nil-ness differs (%v vs %v)", fp, fa.IsNil(), fb.IsNil())
				}
				if fa.IsNil() {
					continue
				}
			}
			if d := equal(f.N, fa, fb, fp, json); d != "" {
				return d
			}
		}
	case KPtr:
		if a.IsNil() != b.IsNil() {
			return path + ": pointer nil-ness differs"
		}
		if !a.IsNil() {
			return equal(n.Elem, a.Elem(), b.Elem(), path, json)
		}
	case KIface:
		if a.IsNil() != b.IsNil() {
			return path + ": interface nil-ness differs"
		}
		if a.IsNil() {
			return ""
		}
		da, db := a.Elem(), b.Elem()
		if da.Type() != db.Type() {
			return fmt.Sprintf("%s: dynamic type %s != %s", path, da.Type(), db.Type())
		}
		for _, im := range n.Impls {
			if im.T == da.Type() {
				return equal(im, da, db, path, json)
			}
		}
		return path + ": unregistered dynamic type " + da.Type().String()
	case KCustom:
		if !reflect.DeepEqual(normCustom(a.Interface()), normCustom(b.Interface())) {
			return fmt.Sprintf("%s: custom %v != %v", path, a.Interface(), b.Interface())
		}
	}

	return ""
}

func normCustom(v any) any {
	if c, ok := v.(CustomVar); ok && len(c.B) == 0 {
		return CustomVar{}
	}

	return v
}

func indices(n int) []int {
	out := make([]int, n)
	for i := range out {
		out[i] = i
	}

	return out
}

func sortedIdx(elem *Node, v reflect.Value) []int {
	idx := indices(v.Len())
	encs := make([][]byte, v.Len())
	for i := range idx {
		encs[i] = RefEncode(elem, v.Index(i), false).B
	}
	sort.SliceStable(idx, func(i, j int) bool { return bytes.Compare(encs[idx[i]], encs[idx[j]]) < 0 })

	return idx
}

// ---------------------------------------------------------------------------------------------
// Calling serix with panic capture
// ---------------------------------------------------------------------------------------------

// Outcome of a serix call.
type Outcome struct {
	Err      error
	Panic    any
	Stack    string
	N        int
	Bytes    []byte
	Value    reflect.Value // decoded value (Elem of the destination pointer)
	AllocB   uint64
	Measured bool
}

func opts(validate bool) []serix.Option {
	if validate {
		return []serix.Option{serix.WithValidation()}
	}

	return nil
}

// Encode calls API.Encode on a pointer to v.
func (c *Case) Encode(v reflect.Value, validate bool) (out Outcome) {
	defer func() {
		if r := recover(); r != nil {
			out.Panic = r
		}
	}()
	p := reflect.New(c.Root.T)
	p.Elem().Set(v)
	out.Bytes, out.Err = c.API.Encode(context.Background(), p.Interface(), opts(validate)...)

	return out
}

// EncodeByValue calls API.Encode with the root struct itself (not a pointer to it): every nested value is then reached
// through a non-addressable reflect.Value.
func (c *Case) EncodeByValue(v reflect.Value, validate bool) (out Outcome) {
	defer func() {
		if r := recover(); r != nil {
			out.Panic = r
		}
	}()
	out.Bytes, out.Err = c.API.Encode(context.Background(), v.Interface(), opts(validate)...)

	return out
}

// Decode calls API.Decode into a fresh value of the root type.
func (c *Case) Decode(b []byte, validate bool) (out Outcome) {
	p := reflect.New(c.Root.T)
	out.Value = p.Elem()
	defer func() {
		if r := recover(); r != nil {
			out.Panic = r
		}
	}()
	out.N, out.Err = c.API.Decode(context.Background(), b, p.Interface(), opts(validate)...)

	return out
}

// JSONEncode calls API.JSONEncode on a pointer to v.
func (c *Case) JSONEncode(v reflect.Value, validate bool) (out Outcome) {
	defer func() {
		if r := recover(); r != nil {
			out.Panic = r
		}
	}()
	p := reflect.New(c.Root.T)
	p.Elem().Set(v)
	out.Bytes, out.Err = c.API.JSONEncode(context.Background(), p.Interface(), opts(validate)...)

	return out
}

// JSONEncodeByValue calls API.JSONEncode with the root struct itself instead of a pointer to it.
func (c *Case) JSONEncodeByValue(v reflect.Value, validate bool) (out Outcome) {
	defer func() {
		if r := recover(); r != nil {
			out.Panic = r
		}
	}()
	out.Bytes, out.Err = c.API.JSONEncode(context.Background(), v.Interface(), opts(validate)...)

	return out
}

// JSONDecode calls API.JSONDecode into a fresh value of the root type.
func (c *Case) JSONDecode(doc []byte, validate bool) (out Outcome) {
	p := reflect.New(c.Root.T)
	out.Value = p.Elem()
	defer func() {
		if r := recover(); r != nil {
			out.Panic = r
		}
	}()
	out.Err = c.API.JSONDecode(context.Background(), doc, p.Interface(), opts(validate)...)

	return out
}

// MapDecode calls API.MapDecode into a fresh value of the root type.
func (c *Case) MapDecode(m map[string]any, validate bool) (out Outcome) {
	p := reflect.New(c.Root.T)
	out.Value = p.Elem()
	defer func() {
		if r := recover(); r != nil {
			out.Panic = r
		}
	}()
	out.Err = c.API.MapDecode(context.Background(), m, p.Interface(), opts(validate)...)

	return out
}

func isEmptyValue(v reflect.Value) bool {
	if v.IsZero() {
		return true
	}

	return v.Kind() == reflect.Slice && v.Len() == 0
}

// BigOf returns the number of a KBigInt value: a *big.Int (nil stays nil) or a big.Int held by value.
func BigOf(v reflect.Value) *big.Int {
	if v.Kind() == reflect.Ptr {
		bi, _ := v.Interface().(*big.Int)

		return bi
	}
	x, _ := v.Interface().(big.Int)

	return &x
}

package c12

import (
	"fmt"
	"sort"
	"testing"

	"github.com/iotaledger/hive.go/core/memstorage"
	"github.com/iotaledger/hive.go/ds/shrinkingmap"
	"pgregory.net/rapid"
	"verifharness/internal/stats"
)

type isIndex uint32

const isUniverse = 5

type isSlot struct {
	ptr     *shrinkingmap.ShrinkingMap[int, int]
	content map[int]int
}

// TestIndexedStorage: IndexedStorage is a keyed store index -> storage. Storages are identified by pointer
// (Get of an existing index must hand out the very same storage) and by their content.
func TestIndexedStorage(t *testing.T) {
	const check = "indexedstorage"
	stats.Rule(check, "rapid state machine over memstorage.IndexedStorage[uint32-index,int,int], indexes 0..4; Get (no flag / false / true), writes into the returned storage, Evict, ForEach, Clear vs map index->(storage pointer, content); ForEach/Clear compared as multisets of (index, pointer) pairs; evicted storages keep their content; non-trivial = an index was evicted (or cleared) while holding data and later re-created (must be a fresh empty storage); distinct by operation list")
	rapid.Check(t, func(rt *rapid.T) {
		h := newHist(check, "")
		defer h.guard(rt)
		s := memstorage.NewIndexedStorage[isIndex, int, int]()
		model := map[isIndex]*isSlot{}
		removedWithData := map[isIndex]struct{}{}
		idx := rapid.Custom(func(t *rapid.T) isIndex { return isIndex(rapid.IntRange(0, isUniverse-1).Draw(t, "index")) })

		// storages are named by creation order so that messages do not contain addresses
		names := map[*shrinkingmap.ShrinkingMap[int, int]]string{}
		name := func(p *shrinkingmap.ShrinkingMap[int, int]) string {
			if n, ok := names[p]; ok {
				return n
			}
			if p == nil {
				return "nil"
			}
			return "unknown"
		}
		pairs := func() []string {
			out := make([]string, 0, len(model))
			for i, sl := range model {
				out = append(out, fmt.Sprintf("%d:%s", i, name(sl.ptr)))
			}
			sort.Strings(out)
			return out
		}
		checkContent := func(rt *rapid.T, what string, ptr *shrinkingmap.ShrinkingMap[int, int], want map[int]int) {
			if got := ptr.AsMap(); !equalMaps(got, want) {
				h.fail(rt, "%s: storage content %v, want %v", what, got, want)
			}
		}

		acts := weighted{}
		acts.add("Get", 3, func(rt *rapid.T) {
			i := idx.Draw(rt, "i")
			mode := rapid.SampledFrom([]string{"", "false"}).Draw(rt, "flag")
			var got *shrinkingmap.ShrinkingMap[int, int]
			if mode == "" {
				got = s.Get(i)
			} else {
				got = s.Get(i, false)
			}
			h.op("Get(%d%s) nil=%v", i, map[string]string{"": "", "false": ",false"}[mode], got == nil)
			sl, ok := model[i]
			if !ok {
				if got != nil {
					h.fail(rt, "Get(%d) without create returned a storage for a missing index", i)
				}
				return
			}
			if got != sl.ptr {
				h.fail(rt, "Get(%d) returned a different storage object than the one created for the index", i)
			}
			checkContent(rt, fmt.Sprintf("Get(%d)", i), got, sl.content)
		})
		acts.add("GetCreate", 4, func(rt *rapid.T) {
			i := idx.Draw(rt, "i")
			got := s.Get(i, true)
			h.op("Get(%d,true)", i)
			if got == nil {
				h.fail(rt, "Get(%d,true) returned nil", i)
			}
			if sl, ok := model[i]; ok {
				if got != sl.ptr {
					h.fail(rt, "Get(%d,true) on an existing index returned a different storage object", i)
				}
				checkContent(rt, fmt.Sprintf("Get(%d,true)", i), got, sl.content)
				return
			}
			for j, sl := range model {
				if sl.ptr == got {
					h.fail(rt, "Get(%d,true) on a missing index returned the storage of index %d", i, j)
				}
			}
			if _, was := removedWithData[i]; was {
				h.label("recreated_after_removal")
			}
			names[got] = fmt.Sprintf("s%d", len(names)+1)
			model[i] = &isSlot{ptr: got, content: map[int]int{}}
			checkContent(rt, fmt.Sprintf("fresh Get(%d,true)", i), got, map[int]int{})
		})
		acts.add("Write", 4, func(rt *rapid.T) {
			if len(model) == 0 {
				rt.Skip("no storage")
			}
			i := idx.Filter(func(i isIndex) bool { _, ok := model[i]; return ok }).Draw(rt, "i")
			k, v := rapid.IntRange(0, 3).Draw(rt, "k"), rapid.IntRange(0, 99).Draw(rt, "v")
			st := s.Get(i)
			h.op("Get(%d).Set(%d,%d)", i, k, v)
			if st == nil {
				h.fail(rt, "Get(%d) returned nil for an existing index", i)
			}
			st.Set(k, v)
			model[i].content[k] = v
		})
		acts.add("Evict", 3, func(rt *rapid.T) {
			i := idx.Draw(rt, "i")
			got := s.Evict(i)
			h.op("Evict(%d) nil=%v", i, got == nil)
			sl, ok := model[i]
			if !ok {
				if got != nil {
					h.fail(rt, "Evict(%d) of a missing index returned a storage", i)
				}
				return
			}
			if got != sl.ptr {
				h.fail(rt, "Evict(%d) did not return the storage of the index", i)
			}
			checkContent(rt, fmt.Sprintf("Evict(%d)", i), got, sl.content)
			if len(sl.content) > 0 {
				removedWithData[i] = struct{}{}
				h.label("evict_with_data")
			}
			delete(model, i)
		})
		acts.add("ForEach", 1, func(rt *rapid.T) {
			var got []string
			s.ForEach(func(i isIndex, st *shrinkingmap.ShrinkingMap[int, int]) {
				got = append(got, fmt.Sprintf("%d:%s", i, name(st)))
			})
			sort.Strings(got)
			h.op("ForEach() saw %d", len(got))
			if want := pairs(); !equalStrings(got, want) {
				h.fail(rt, "ForEach visited (index:storage) %v, want %v", got, want)
			}
		})
		acts.add("Clear", 1, func(rt *rapid.T) {
			if rapid.IntRange(0, 1).Draw(rt, "really") != 0 {
				rt.Skip("thinned")
			}
			keys, storages := s.Clear()
			h.op("Clear() returned %d", len(keys))
			if len(keys) != len(storages) {
				h.fail(rt, "Clear returned %d keys but %d storages", len(keys), len(storages))
			}
			got := make([]string, 0, len(keys))
			for n := range keys {
				got = append(got, fmt.Sprintf("%d:%s", keys[n], name(storages[n])))
			}
			sort.Strings(got)
			if want := pairs(); !equalStrings(got, want) {
				h.fail(rt, "Clear returned (index:storage) %v, want %v", got, want)
			}
			if len(model) >= 2 {
				h.label("clear_multiple")
			}
			for i, sl := range model {
				checkContent(rt, fmt.Sprintf("storage %d returned by Clear", i), sl.ptr, sl.content)
				if len(sl.content) > 0 {
					removedWithData[i] = struct{}{}
				}
			}
			model = map[isIndex]*isSlot{}
		})
		acts[""] = func(rt *rapid.T) {
			n := 0
			s.ForEach(func(isIndex, *shrinkingmap.ShrinkingMap[int, int]) { n++ })
			if n != len(model) {
				h.fail(rt, "ForEach visited %d storages, model has %d", n, len(model))
			}
		}
		rt.Repeat(acts)
		for i := isIndex(0); i < isUniverse; i++ {
			got := s.Get(i)
			sl, ok := model[i]
			if ok != (got != nil) || (ok && got != sl.ptr) {
				h.op("final Get(%d) nil=%v", i, got == nil)
				h.fail(rt, "final Get(%d): storage present=%v, model present=%v (or a different storage object)", i, got != nil, ok)
			}
		}
		h.done(h.has("recreated_after_removal"))
	})
}

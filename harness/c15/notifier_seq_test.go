package c15

import (
	"context"
	"errors"
	"fmt"
	"strings"
	"sync"
	"sync/atomic"
	"testing"
	"time"

	"github.com/iotaledger/hive.go/runtime/valuenotifier"
	"pgregory.net/rapid"
	"verifharness/internal/ctl"
	"verifharness/internal/stats"
)

// ---------------------------------------------------------------------------------------------------------------
// Sequential state machine for runtime/valuenotifier over the values {1,2,3}.
//
// Actions: Listener(v), Notify(v), l.Deregister(), l.Wait(ctx). Wait is only called where the model says it returns
// at once, so nothing sleeps and nothing depends on timing:
//   * listener already deregistered (explicitly or by an earlier Wait)  -> ErrListenerDeregistered, any context;
//   * listener notified and not deregistered, context.Background        -> nil;
//   * same with an already cancelled / expired context, or one that is
//     cancelled as soon as Wait has entered its select ("late")         -> nil or the context's error (select is free);
//   * listener pending with such a context                              -> the context's error, NOT nil.
// Model per listener: {pending | notified} x {registered | deregistered}; Notify(v) marks every registered pending
// listener of v; Wait deregisters. Oracle = the table above, i.e. Wait == nil only if a Notify for the listener's
// value happened after its creation and before its deregistration (and, with Background, also "if").
// A blocked Wait(Background) on a listener the model calls notified is reported through the watchdog.
// A fifth action, wait_inflight, calls Wait(Background-like) on a registered listener and lets Deregister and/or
// Notify of that listener happen in the window between Wait's registered-check and its select (see lateCtx):
// Deregister only, or Deregister before Notify -> ErrListenerDeregistered; Notify only -> nil; Notify before
// Deregister -> either.
// ---------------------------------------------------------------------------------------------------------------

const nseqCheck = "notifier_sequential"

// hangSeen: once a genuine 20 s hang has been reported in this process, later watchdogs (which then only serve
// rapid's shrinking of that failure) use a short bound so that shrinking finishes.
var hangSeen atomic.Bool

func watchdogBound() time.Duration {
	if hangSeen.Load() {
		return time.Second
	}
	return ctl.HangTimeout
}

type nListener struct {
	id       int
	v        int
	l        *valuenotifier.Listener
	notified bool
	dereg    bool
}

func cancelledCtx() context.Context {
	ctx, cancel := context.WithCancel(context.Background())
	cancel()
	return ctx
}

func expiredCtx() (context.Context, context.CancelFunc) {
	return context.WithDeadline(context.Background(), time.Unix(1, 0))
}

// lateCtx is a context that is cancelled only after Wait has entered its select (Done() is evaluated on entry): the
// harness learns from the Done() call that Wait is about to block and cancels then. It models the ordinary "caller
// cancels while waiting" without any timing; for a pending listener the only legal result is the context's error.
//
// onEnter (optional) runs inside that first Done() call, i.e. after Wait has checked that the listener is still
// registered and before its select looks at the channels. It lets the harness place a Deregister / Notify exactly in
// that window - the schedule "the other goroutine ran while Wait was between its check and its select", which the
// free-running TestNotifierWaitDeregisterWindow shows to be a real one - deterministically and without a repo hook.
type lateCtx struct {
	done    chan struct{}
	entered chan struct{}
	onEnter func()
	once    sync.Once
	closed  atomic.Bool
}

func newLateCtx() *lateCtx { return &lateCtx{done: make(chan struct{}), entered: make(chan struct{})} }

func (c *lateCtx) Deadline() (time.Time, bool) { return time.Time{}, false }
func (c *lateCtx) Value(any) any               { return nil }
func (c *lateCtx) Done() <-chan struct{} {
	c.once.Do(func() {
		if c.onEnter != nil {
			c.onEnter()
		}
		close(c.entered)
	})
	return c.done
}
func (c *lateCtx) Err() error {
	if c.closed.Load() {
		return context.Canceled
	}
	return nil
}
func (c *lateCtx) cancel() {
	if !c.closed.Swap(true) {
		close(c.done)
	}
}

func errName(err error) string {
	switch {
	case err == nil:
		return "nil"
	case errors.Is(err, valuenotifier.ErrListenerDeregistered):
		return "ErrListenerDeregistered"
	case errors.Is(err, context.Canceled):
		return "context.Canceled"
	case errors.Is(err, context.DeadlineExceeded):
		return "context.DeadlineExceeded"
	}
	return "other:" + err.Error()
}

type nseqMachine struct {
	n         *valuenotifier.Notifier[int]
	ls        []*nListener
	actions   []string
	everNotif map[int]bool // value was notified while someone listened
	everDereg map[int]bool // value had a listener deregistered
	relisten  map[int]bool // value was re-listened after one of the above
	labels    map[string]bool
	nontriv   bool
}

func (m *nseqMachine) fail(t *rapid.T, problem string, extra map[string]any) {
	p := map[string]any{"actions": m.actions, "problem": problem}
	for k, v := range extra {
		p[k] = v
	}
	stats.Violation(nseqCheck, p)
	t.Fatalf("%s\nactions:\n  %s", problem, strings.Join(m.actions, "\n  "))
}

// waitOnce calls l.Wait(ctx) under the watchdog. hung = it did not return.
func waitOnce(l *valuenotifier.Listener, ctxKind string) (err error, hung bool) {
	var ctx context.Context
	cancel := context.CancelFunc(func() {})
	var late *lateCtx
	switch ctxKind {
	case "late":
		late = newLateCtx()
		ctx, cancel = late, late.cancel
	case "background":
		ctx, cancel = context.WithCancel(context.Background()) // cancelled only to release a hung Wait
	case "cancelled":
		ctx = cancelledCtx()
	default:
		ctx, cancel = expiredCtx()
	}
	defer cancel()
	done := make(chan error, 1)
	go func() { done <- l.Wait(ctx) }()
	if late != nil {
		select {
		case err = <-done: // returned without (or right after) looking at the context
			return err, false
		case <-late.entered:
			yield(20) // let Wait reach its select; only makes a wrong nil likelier to show, never needed for soundness
			late.cancel()
		case <-time.After(watchdogBound()):
			hangSeen.Store(true)
			return nil, true
		}
	}
	select {
	case err = <-done:
		return err, false
	case <-time.After(watchdogBound()):
		hangSeen.Store(true)
		return nil, true
	}
}

// waitInflight calls l.Wait with a context that performs ops (on l / on l's value) at the moment Wait enters its
// select. No cancel is issued: every ops list contains a Deregister or a Notify, so Wait must return by itself.
func waitInflight(n *valuenotifier.Notifier[int], l *nListener, ops string) (err error, entered, hung bool) {
	ctx := newLateCtx()
	ctx.onEnter = func() {
		for _, op := range strings.Split(ops, ";") {
			if op == "deregister" {
				l.l.Deregister()
			} else {
				n.Notify(l.v)
			}
		}
	}
	defer ctx.cancel()
	done := make(chan error, 1)
	go func() { done <- l.l.Wait(ctx) }()
	select {
	case err = <-done:
		select {
		case <-ctx.entered:
			entered = true
		default:
		}
		return err, entered, false
	case <-time.After(watchdogBound()):
		hangSeen.Store(true)
		return nil, false, true
	}
}

// expectWait is the oracle table. It returns the set of acceptable results.
func expectWait(notified, dereg bool, ctxKind string) []string {
	ctxErr := map[string]string{"late": "context.Canceled", "cancelled": "context.Canceled", "expired": "context.DeadlineExceeded"}[ctxKind]
	switch {
	case dereg:
		return []string{"ErrListenerDeregistered"}
	case notified && ctxKind == "background":
		return []string{"nil"}
	case notified:
		return []string{"nil", ctxErr}
	default:
		return []string{ctxErr}
	}
}

func contains(l []string, s string) bool {
	for _, x := range l {
		if x == s {
			return true
		}
	}
	return false
}

func runNotifierSequential(t *rapid.T) {
	m := &nseqMachine{n: valuenotifier.New[int](), everNotif: map[int]bool{}, everDereg: map[int]bool{}, relisten: map[int]bool{}, labels: map[string]bool{}}
	vGen := rapid.IntRange(1, 3)
	t.Repeat(map[string]func(*rapid.T){
		"listener": func(t *rapid.T) {
			v := vGen.Draw(t, "v")
			l := &nListener{id: len(m.ls), v: v, l: m.n.Listener(v)}
			m.ls = append(m.ls, l)
			m.actions = append(m.actions, fmt.Sprintf("l%d = Listener(%d)", l.id, v))
			if m.everNotif[v] {
				m.relisten[v] = true
				m.labels["relisten_after_notify"] = true
			}
			if m.everDereg[v] {
				m.relisten[v] = true
				m.labels["relisten_after_deregister"] = true
			}
		},
		"notify": func(t *rapid.T) {
			v := vGen.Draw(t, "v")
			m.actions = append(m.actions, fmt.Sprintf("Notify(%d)", v))
			m.n.Notify(v)
			for _, l := range m.ls {
				if l.v == v && !l.dereg && !l.notified {
					l.notified = true
					m.everNotif[v] = true
				}
			}
		},
		"deregister": func(t *rapid.T) {
			if len(m.ls) == 0 {
				t.Skip("no listener")
			}
			l := m.ls[rapid.IntRange(0, len(m.ls)-1).Draw(t, "l")]
			m.actions = append(m.actions, fmt.Sprintf("l%d.Deregister()", l.id))
			l.l.Deregister()
			l.dereg = true
			m.everDereg[l.v] = true
		},
		"wait": func(t *rapid.T) {
			if len(m.ls) == 0 {
				t.Skip("no listener")
			}
			l := m.ls[rapid.IntRange(0, len(m.ls)-1).Draw(t, "l")]
			kinds := []string{"background", "background", "late", "cancelled", "expired"}
			if !l.dereg && !l.notified {
				// a pending listener would block on Background. "late" comes first and most often: a wrongly closed
				// channel then shows (almost) every time, whereas with an already-done context select picks at random
				kinds = []string{"late", "late", "late", "late", "cancelled", "expired"}
			}
			kind := rapid.SampledFrom(kinds).Draw(t, "ctx")
			want := expectWait(l.notified, l.dereg, kind)
			m.actions = append(m.actions, fmt.Sprintf("l%d.Wait(%s)", l.id, kind))
			got, hung := waitOnce(l.l, kind)
			state := fmt.Sprintf("listener of value %d, model state: notified=%v deregistered=%v", l.v, l.notified, l.dereg)
			if hung {
				m.fail(t, "Wait did not return although the model says it returns at once ("+state+")", map[string]any{"expected": want, "goroutines": ctl.Dump()})
			}
			if !contains(want, errName(got)) {
				m.fail(t, fmt.Sprintf("Wait returned %s, allowed %v (%s)", errName(got), want, state), map[string]any{"expected": want, "observed": errName(got)})
			}
			m.labels["wait_"+errName(got)] = true
			if m.relisten[l.v] {
				m.nontriv = true
			}
			l.dereg = true
			m.everDereg[l.v] = true
		},
		"wait_inflight": func(t *rapid.T) {
			var cands []*nListener
			for _, l := range m.ls {
				if !l.dereg {
					cands = append(cands, l)
				}
			}
			if len(cands) == 0 {
				t.Skip("no registered listener")
			}
			l := cands[rapid.IntRange(0, len(cands)-1).Draw(t, "l")]
			ops := rapid.SampledFrom([]string{"deregister", "notify", "deregister;notify", "notify;deregister"}).Draw(t, "ops")
			m.actions = append(m.actions, fmt.Sprintf("l%d.Wait(Background) with {%s} happening after Wait's registered-check and before its select", l.id, ops))
			got, entered, hung := waitInflight(m.n, l, ops)
			state := fmt.Sprintf("listener of value %d, model state before the call: notified=%v deregistered=false", l.v, l.notified)
			if hung {
				m.fail(t, "Wait did not return although a Deregister / Notify of this listener happened while it was waiting ("+state+")", map[string]any{"goroutines": ctl.Dump()})
			}
			if entered { // the injected operations did run: replay them on the model
				for _, op := range strings.Split(ops, ";") {
					if op == "deregister" {
						l.dereg = true
						m.everDereg[l.v] = true
						continue
					}
					for _, x := range m.ls {
						if x.v == l.v && !x.dereg && !x.notified {
							x.notified = true
							m.everNotif[l.v] = true
						}
					}
				}
			}
			var want []string
			switch {
			case l.dereg && l.notified: // notified first, deregistered while waiting: either answer is covered by the statement
				want = []string{"nil", "ErrListenerDeregistered"}
			case l.dereg:
				want = []string{"ErrListenerDeregistered"}
			case l.notified:
				want = []string{"nil"}
			default:
				want = []string{"<must not return>"}
			}
			if !contains(want, errName(got)) {
				m.fail(t, fmt.Sprintf("Wait returned %s, allowed %v (%s)", errName(got), want, state), map[string]any{"expected": want, "observed": errName(got)})
			}
			m.labels["inflight_"+ops] = true
			m.labels["wait_"+errName(got)] = true
			if m.relisten[l.v] {
				m.nontriv = true
			}
			l.dereg = true
			m.everDereg[l.v] = true
		},
	})
	var labels []string
	for l := range m.labels {
		labels = append(labels, l)
	}
	stats.Case(nseqCheck, m.nontriv, strings.Join(m.actions, ";"), func() any { return m.actions }, labels...)
}

func TestNotifierSequential(t *testing.T) {
	stats.Rule(nseqCheck, "rapid state machine over values {1,2,3}: Listener(v) / Notify(v) / l.Deregister() / l.Wait(ctx in {Background, cancelled-after-Wait-entered, already cancelled, expired}) with Wait only where the model says it returns at once, plus Wait with Deregister/Notify of the same listener placed between its registered-check and its select; model {pending,notified}x{registered,deregistered} per listener; distinct by action list; non-trivial = a value is listened again after it was notified or had a listener deregistered, and a Wait on a listener of that value follows")
	rapid.Check(t, runNotifierSequential)
}

// Demonstration of an independent auditor (third round), kept as a regression test; see known_findings.json.
package c01

import (
	"context"
	"math/big"
	"testing"

	"github.com/stretchr/testify/require"

	"github.com/iotaledger/hive.go/serializer/v2/serix"
)

type hunt16Balance struct {
	Amount *big.Int `serix:""`
}

// The binary form refuses every *big.Int that is not a uint256 (negative, wider than 256 bits, nil). The JSON form
// writes them all (or panics for nil) although MapDecode/JSONDecode can read back none of them.
func TestRegressionAudit16BigIntJSONFormAcceptsWhatItCanNotReadBack(t *testing.T) {
	api := serix.NewAPI()
	ctx := context.Background()

	for name, v := range map[string]*big.Int{
		"five (control)":    big.NewInt(5),
		"zero (control)":    big.NewInt(0),
		"2^255 (control)":   new(big.Int).Lsh(big.NewInt(1), 255),
		"2^256-1 (control)": new(big.Int).Sub(new(big.Int).Lsh(big.NewInt(1), 256), big.NewInt(1)),
		"negative":          big.NewInt(-5),
		"2^256 (257 bits)":  new(big.Int).Lsh(big.NewInt(1), 256),
		"2^300":             new(big.Int).Lsh(big.NewInt(1), 300),
	} {
		src := &hunt16Balance{Amount: v}

		_, binErr := api.Encode(ctx, src)
		js, jsonErr := api.JSONEncode(ctx, src)
		t.Logf("%s: binary Encode err=%v | JSONEncode=%s err=%v", name, binErr, js, jsonErr)

		if jsonErr != nil {
			// refusing the value is fine
			continue
		}

		dst := &hunt16Balance{}
		if err := api.JSONDecode(ctx, js, dst); err != nil {
			t.Errorf("%s: JSONEncode accepted the value and produced %s, but JSONDecode can not read it: %v", name, js, err)

			continue
		}
		if dst.Amount == nil || dst.Amount.Cmp(v) != 0 {
			t.Errorf("%s: round trip changed the value: got %v", name, dst.Amount)
		}
	}
}

// A nil *big.Int (non-optional field) is an error in the binary form, and a nil pointer dereference in the JSON form.
func TestRegressionAudit16NilBigIntJSONFormPanics(t *testing.T) {
	api := serix.NewAPI()
	ctx := context.Background()

	src := &hunt16Balance{}
	_, binErr := api.Encode(ctx, src)
	require.Error(t, binErr, "control: the binary form reports an error")

	require.NotPanics(t, func() {
		_, err := api.JSONEncode(ctx, src)
		t.Logf("JSONEncode err: %v", err)
	}, "JSONEncode must report an error like Encode does")
}

package c07

import (
	"encoding/binary"
	"errors"
	"fmt"
	"runtime"
	"sort"
	"strings"
	"sync"
	"testing"
	"time"

	"github.com/iotaledger/hive.go/kvstore"
	"github.com/iotaledger/hive.go/kvstore/mapdb"
	"pgregory.net/rapid"
	"verifharness/internal/ctl"
	"verifharness/internal/stats"
)

var seqKey = []byte("seq")

// ---------------------------------------------------------------------------------------------
// history

type action struct {
	Kind     string // next | release | restart | conc
	N        int    // next: how many calls; conc: how many goroutines call Next once each
	Interval uint64 // restart: interval of the new Sequence object
}

func (a action) String() string {
	switch a.Kind {
	case "next":
		return fmt.Sprintf("next*%d", a.N)
	case "conc":
		return fmt.Sprintf("conc*%d", a.N)
	case "restart":
		return fmt.Sprintf("restart(%d)", a.Interval)
	default:
		return a.Kind
	}
}

type history struct {
	Interval      uint64   // interval of the first lifetime
	CrashInterval uint64   // interval of the lifetime that follows an injected crash
	Actions       []action // <= 20
}

func (h history) strings() []string {
	out := []string{fmt.Sprintf("new(%d)", h.Interval)}
	for _, a := range h.Actions {
		out = append(out, a.String())
	}
	out = append(out, fmt.Sprintf("crashInterval=%d", h.CrashInterval))

	return out
}

func (h history) key() string { return strings.Join(h.strings(), ";") }

func genInterval(t *rapid.T, label string) uint64 {
	switch rapid.IntRange(0, 9).Draw(t, label+"Cls") {
	case 0, 1, 2, 3:
		return uint64(rapid.IntRange(1, 4).Draw(t, label)) // leases that run out inside a short history
	case 9:
		return 1 << 20
	default:
		return uint64(rapid.IntRange(1, 64).Draw(t, label))
	}
}

func genHistory(t *rapid.T, maxActions int, withConc bool) history {
	h := history{Interval: genInterval(t, "interval"), CrashInterval: genInterval(t, "crashInterval")}
	n := rapid.IntRange(1, maxActions).Draw(t, "nActions")
	for i := 0; i < n; i++ {
		c := rapid.IntRange(0, 19).Draw(t, "kind")
		switch {
		case c < 9:
			h.Actions = append(h.Actions, action{Kind: "next", N: rapid.IntRange(1, 4).Draw(t, "k")})
		case c < 13:
			h.Actions = append(h.Actions, action{Kind: "release"})
		case c < 18 || !withConc:
			h.Actions = append(h.Actions, action{Kind: "restart", Interval: genInterval(t, "restartInterval")})
		default:
			h.Actions = append(h.Actions, action{Kind: "conc", N: rapid.IntRange(2, 6).Draw(t, "g")})
		}
	}

	return h
}

// ---------------------------------------------------------------------------------------------
// executor + oracle

type faultMode int

const (
	modeNone  faultMode = iota // no fault
	modeFail                   // the armed store call fails, the Sequence object keeps being used
	modeCrash                  // the armed store call is where the process stops: object abandoned, restart
)

func (m faultMode) String() string { return [...]string{"none", "fail", "crash"}[m] }

type event struct {
	Op      string   `json:"op"`
	Result  string   `json:"result"`
	MarkPre uint64   `json:"mark_before"`
	MarkPos uint64   `json:"mark_after"`
	Calls   []string `json:"store_calls,omitempty"`
}

type outcome struct {
	positions  int      // store calls made
	violation  string   // "" = held
	trace      []event  // what happened
	nontrivial bool     // by the rule of DESIGN C07
	labels     []string // classes seen
	fired      bool
}

type runner struct {
	h     history
	mode  faultMode
	inner kvstore.KVStore
	in    *injector
	store kvstore.KVStore

	seq              *kvstore.Sequence
	interval         uint64
	lifetimeReturned bool // the live object has handed out at least one number
	leaseOpen        bool // the live object has handed out a number since its last successful Release

	have bool   // any number handed out so far
	L    uint64 // last handed out + 1

	pendingAbandonedInLease bool // a lifetime ended without Release after handing out numbers / mid store op
	pendingReleaseRestart   bool // a lifetime ended right after a successful Release
	lastWasRelease          bool

	out    outcome
	labels map[string]bool
}

func (r *runner) mark() uint64 {
	v, err := r.inner.Get(seqKey)
	if err != nil {
		return 0 // absent: nothing leased yet
	}
	if len(v) != 8 {
		r.fail("stored mark has %d bytes, want 8", len(v))

		return 0
	}

	return binary.BigEndian.Uint64(v)
}

func (r *runner) fail(format string, args ...any) {
	if r.out.violation == "" {
		r.out.violation = fmt.Sprintf(format, args...)
	}
}

func (r *runner) label(l string) { r.labels[l] = true }

func (r *runner) newLifetime(interval uint64) {
	seq, err := kvstore.NewSequence(r.store, seqKey, interval)
	if err != nil || seq == nil {
		r.fail("NewSequence(%d) failed: %v", interval, err)

		return
	}
	r.seq, r.interval = seq, interval
	r.lifetimeReturned, r.leaseOpen = false, false
	if interval >= 1<<20 {
		r.label("big_interval")
	}
}

// endLifetime records why the current object is dropped (for the non-trivial rule).
func (r *runner) endLifetime(midOp bool) {
	switch {
	case midOp || r.leaseOpen:
		r.pendingAbandonedInLease = true
		r.label("abandoned_in_lease")
	case r.lastWasRelease:
		r.pendingReleaseRestart = true
		r.label("restart_after_release")
	}
	if !r.lifetimeReturned {
		r.label("lifetime_without_numbers")
	}
}

func maxU(a, b uint64) uint64 {
	if a > b {
		return a
	}

	return b
}

func (r *runner) handedOut(n uint64) {
	r.have, r.L = true, n+1
	r.lifetimeReturned, r.leaseOpen = true, true
	if r.pendingAbandonedInLease || r.pendingReleaseRestart {
		r.out.nontrivial = true
	}
	r.pendingAbandonedInLease, r.pendingReleaseRestart = false, false
}

// next performs one Next call and judges it. It returns true if the injected fault fired in it.
func (r *runner) next() bool {
	pre, firedPre, callsPre := r.mark(), r.in.firedCount(), r.in.callCount()
	n, err := r.seq.Next()
	post := r.mark()
	fired := r.in.firedCount() > firedPre
	ev := event{Op: fmt.Sprintf("Next[i=%d]", r.interval), MarkPre: pre, MarkPos: post, Calls: r.in.calls[callsPre:]}
	if err != nil {
		ev.Result = "err: " + err.Error()
	} else {
		ev.Result = fmt.Sprint(n)
	}
	r.out.trace = append(r.out.trace, ev)
	if r.in.callCount()-callsPre == 2 {
		r.label("lease_taken")
		if r.lifetimeReturned {
			r.label("lease_boundary_crossed")
		}
	}
	r.lastWasRelease = false

	switch {
	case err != nil && !fired:
		r.fail("Next failed although no store call failed: %v", err)
	case err != nil:
		if !errors.Is(err, errInjected) {
			r.fail("Next hides the store failure: got %v", err)
		}
		if r.have && post < r.L {
			r.fail("after a failed Next the stored mark %d is below %d (numbers up to %d were handed out)", post, r.L, r.L-1)
		}
		if post > pre+r.interval {
			r.fail("a failed Next moved the stored mark from %d to %d: more than one interval (%d)", pre, post, r.interval)
		}
	default:
		if r.have && n < r.L {
			r.fail("Next returned %d but %d was already handed out (reuse / not increasing)", n, r.L-1)
		}
		if n > pre {
			r.fail("Next returned %d although the stored mark said %d was the first unleased number (numbers skipped without a crash)", n, pre)
		}
		if post < n+1 {
			r.fail("Next returned %d but the stored mark is %d: the number is not covered by a stored lease, a crash now would hand it out again", n, post)
		}
		if post > maxU(pre, n+r.interval) {
			r.fail("Next returned %d and moved the stored mark from %d to %d: more than one interval (%d) reserved", n, pre, post, r.interval)
		}
		r.handedOut(n)
	}

	return fired
}

func (r *runner) release() bool {
	pre, firedPre, callsPre := r.mark(), r.in.firedCount(), r.in.callCount()
	err := r.seq.Release()
	post := r.mark()
	fired := r.in.firedCount() > firedPre
	ev := event{Op: fmt.Sprintf("Release[i=%d]", r.interval), MarkPre: pre, MarkPos: post, Result: "ok", Calls: r.in.calls[callsPre:]}
	if err != nil {
		ev.Result = "err: " + err.Error()
	}
	r.out.trace = append(r.out.trace, ev)
	if !r.lifetimeReturned {
		r.label("release_on_fresh_object")
	}

	switch {
	case err != nil && !fired:
		r.fail("Release failed although no store call failed: %v", err)
	case err != nil:
		if !errors.Is(err, errInjected) {
			r.fail("Release hides the store failure: got %v", err)
		}
		if r.have && post < r.L {
			r.fail("after a failed Release the stored mark %d is below %d", post, r.L)
		}
		r.lastWasRelease = false
	default:
		if r.have && post < r.L {
			r.fail("Release rolled the stored mark back to %d although %d was already handed out: the next lease will reuse numbers", post, r.L-1)
		}
		if post > pre {
			r.fail("Release raised the stored mark from %d to %d (wastes numbers)", pre, post)
		}
		if r.lifetimeReturned && post != r.L {
			r.fail("clean Release after handing out %d left the stored mark at %d, want %d (a clean Release wastes none)", r.L-1, post, r.L)
		}
		r.leaseOpen = false
		r.lastWasRelease = true
	}

	return fired
}

func (r *runner) conc(g int) bool {
	pre, firedPre, callsPre := r.mark(), r.in.firedCount(), r.in.callCount()
	type res struct {
		n   uint64
		err error
	}
	results := make([]res, g)
	var wg sync.WaitGroup
	start := make(chan struct{})
	seq := r.seq
	for i := 0; i < g; i++ {
		wg.Add(1)
		go func(i int) {
			defer wg.Done()
			<-start
			n, err := seq.Next()
			results[i] = res{n, err}
		}(i)
	}
	close(start)
	if !ctl.Within(ctl.HangTimeout, wg.Wait) {
		r.fail("%d concurrent Next calls did not return within %v\n%s", g, ctl.HangTimeout, ctl.Dump())

		return false
	}
	post := r.mark()
	fired := r.in.firedCount() > firedPre
	r.label("concurrent_next")
	r.lastWasRelease = false

	var got []uint64
	for _, x := range results {
		if x.err != nil {
			if !fired {
				r.fail("concurrent Next failed although no store call failed: %v", x.err)
			} else if !errors.Is(x.err, errInjected) {
				r.fail("concurrent Next hides the store failure: %v", x.err)
			}

			continue
		}
		got = append(got, x.n)
	}
	sort.Slice(got, func(i, j int) bool { return got[i] < got[j] })
	r.out.trace = append(r.out.trace, event{Op: fmt.Sprintf("%d goroutines Next[i=%d]", g, r.interval), Result: fmt.Sprint(got), MarkPre: pre, MarkPos: post, Calls: r.in.calls[callsPre:]})
	if len(got) == 0 {
		return fired
	}
	for i := 1; i < len(got); i++ {
		if got[i] == got[i-1] {
			r.fail("two concurrent Next calls both returned %d", got[i])
		}
	}
	lo, hi := got[0], got[len(got)-1]
	if r.have && lo < r.L {
		r.fail("concurrent Next returned %d but %d was already handed out", lo, r.L-1)
	}
	if lo > pre {
		r.fail("concurrent Next: smallest number %d is above the stored mark %d (numbers skipped without a crash)", lo, pre)
	}
	if post < hi+1 {
		r.fail("concurrent Next returned %d but the stored mark is %d", hi, post)
	}
	if post > maxU(pre, hi+r.interval) {
		r.fail("concurrent Next up to %d moved the stored mark from %d to %d: more than one interval (%d)", hi, pre, post, r.interval)
	}
	r.handedOut(hi)

	return fired
}

// run executes the history with a fault armed at store call number faultPos (0 = none).
func run(h history, faultPos int, mode faultMode) outcome {
	r := &runner{h: h, mode: mode, inner: mapdb.NewMapDB(), labels: map[string]bool{}}
	if faultPos > 0 {
		r.in = newInjector(faultPos)
	} else {
		r.in = newInjector()
	}
	r.store = newFaultKV(r.inner, r.in)
	r.newLifetime(h.Interval)

	crash := func(fired bool) bool {
		if !fired {
			return false
		}
		r.out.fired = true
		call := r.in.firedIn[len(r.in.firedIn)-1]
		if mode != modeCrash {
			r.label("store_failure_" + call)

			return false
		}
		// the process stopped inside this store call: the object is gone, a new process starts
		r.label("crash_in_" + call)
		r.endLifetime(true)
		r.out.trace = append(r.out.trace, event{Op: fmt.Sprintf("CRASH, restart(%d)", h.CrashInterval), MarkPre: r.mark(), MarkPos: r.mark()})
		r.newLifetime(h.CrashInterval)

		return true
	}

	for _, a := range h.Actions {
		if r.out.violation != "" {
			break
		}
		switch a.Kind {
		case "next":
			for i := 0; i < a.N && r.out.violation == ""; i++ {
				if crash(r.next()) {
					break // the rest of this action died with the process
				}
			}
		case "release":
			crash(r.release())
		case "conc":
			crash(r.conc(a.N))
		case "restart":
			r.endLifetime(false)
			r.out.trace = append(r.out.trace, event{Op: a.String(), MarkPre: r.mark(), MarkPos: r.mark()})
			r.newLifetime(a.Interval)
		}
	}
	r.out.positions = r.in.callCount()
	for l := range r.labels {
		r.out.labels = append(r.out.labels, l)
	}
	sort.Strings(r.out.labels)

	return r.out
}

// ---------------------------------------------------------------------------------------------
// properties

const checkEnum = "sequence_crash_enumeration"

type payload struct {
	History  []string `json:"history"`
	FaultPos int      `json:"fault_at_store_call"`
	Mode     string   `json:"fault_mode"`
	Problem  string   `json:"problem"`
	Trace    []event  `json:"trace"`
}

func judge(t interface{ Fatalf(string, ...any) }, check string, h history, pos int, mode faultMode, o outcome) {
	key := fmt.Sprintf("%s|%d|%s", h.key(), pos, mode)
	stats.Case(check, o.nontrivial, key, func() any {
		return map[string]any{"history": h.strings(), "fault_at_store_call": pos, "mode": mode.String(), "trace": o.trace}
	}, o.labels...)
	if o.violation != "" {
		stats.Violation(check, payload{History: h.strings(), FaultPos: pos, Mode: mode.String(), Problem: o.violation, Trace: o.trace})
		t.Fatalf("%s\nhistory=%v fault at store call %d (%s)\ntrace=%+v", o.violation, h.strings(), pos, mode, o.trace)
	}
}

// enumerate runs the history fault free, then once per store-call position and fault mode.
func enumerate(t interface{ Fatalf(string, ...any) }, check string, h history) {
	base := run(h, 0, modeNone)
	judge(t, check, h, 0, modeNone, base)
	for pos := 1; pos <= base.positions; pos++ {
		for _, mode := range []faultMode{modeCrash, modeFail} {
			o := run(h, pos, mode)
			if !o.fired {
				// the run is deterministic up to the armed call, so it must be reached
				t.Fatalf("harness: position %d of %d not reached in re-run (history %v)", pos, base.positions, h.strings())
			}
			judge(t, check, h, pos, mode, o)
		}
	}
	stats.NoteAdd(check, "histories", 1)
	stats.NoteAdd(check, "fault_positions_enumerated", int64(base.positions))
}

const ruleEnum = "rapid draws a history of <=20 actions (Next*k, Release, restart with a fresh interval 1..64 / 1..4 / 2^20, g goroutines calling Next at once) over faultkv(mapdb); it is run fault free (counting the P store calls) and then re-run once per position 1..P and per mode {crash: the process stops in that store call, object dropped, restart; fail: the call returns an error, object keeps being used}. Case = (history, position, mode). Non-trivial = a lifetime ended inside an open lease or inside a store operation, or right after a clean Release, and a later lifetime handed out a number"

func TestSequenceCrashEnumeration(t *testing.T) {
	stats.Rule(checkEnum, ruleEnum)
	rapid.Check(t, func(rt *rapid.T) {
		enumerate(rt, checkEnum, genHistory(rt, 20, true))
	})
}

// TestSequenceConcurrentNext runs under the race detector: many goroutines share one Sequence, restarts in between.
func TestSequenceConcurrentNext(t *testing.T) {
	const check = "sequence_concurrent_next"
	stats.Rule(check, "rapid draws 1..4 lifetimes (interval 1..8 or 1..64), each: g=2..8 goroutines call Next k=1..6 times at once on the live object - in a third of the lifetimes one more goroutine calls Release at the same time and the store yields inside Set so that calls overlap the store writes -, then optionally Release; abandoned otherwise. All numbers of the whole store life must be distinct, every lifetime's numbers above all earlier ones, stored mark above all of them. Runs with -race. Non-trivial = >=2 lifetimes and a lease boundary crossed while goroutines were racing")
	rapid.Check(t, func(rt *rapid.T) {
		inner := mapdb.NewMapDB()
		lifetimes := rapid.IntRange(1, 4).Draw(rt, "lifetimes")
		var desc []string
		seen := map[uint64]bool{}
		var have bool
		var maxSoFar uint64
		crossed := false
		for l := 0; l < lifetimes; l++ {
			var interval uint64
			if rapid.Bool().Draw(rt, "small") {
				interval = uint64(rapid.IntRange(1, 8).Draw(rt, "interval"))
			} else {
				interval = uint64(rapid.IntRange(1, 64).Draw(rt, "interval"))
			}
			g := rapid.IntRange(2, 8).Draw(rt, "g")
			k := rapid.IntRange(1, 6).Draw(rt, "k")
			release := rapid.Bool().Draw(rt, "release")
			desc = append(desc, fmt.Sprintf("lifetime(i=%d,g=%d,k=%d,release=%v)", interval, g, k, release))
			// optionally one goroutine calls Release while the others call Next; the store then yields inside Set so
			// that calls overlap the store write of Release / of a lease refill
			raceRelease := rapid.IntRange(0, 2).Draw(rt, "raceRelease") == 0
			if raceRelease {
				desc[len(desc)-1] += "+racingRelease"
			}
			var store kvstore.KVStore = inner
			if raceRelease {
				store = &yieldingKV{KVStore: inner}
			}
			seq, err := kvstore.NewSequence(store, seqKey, interval)
			if err != nil {
				rt.Fatalf("NewSequence: %v", err)
			}
			out := make([][]uint64, g)
			errs := make([]error, g)
			var wg sync.WaitGroup
			start := make(chan struct{})
			for i := 0; i < g; i++ {
				wg.Add(1)
				go func(i int) {
					defer wg.Done()
					<-start
					for j := 0; j < k; j++ {
						n, err := seq.Next()
						if err != nil {
							errs[i] = err

							return
						}
						out[i] = append(out[i], n)
					}
				}(i)
			}
			var relErr error
			if raceRelease {
				wg.Add(1)
				go func() {
					defer wg.Done()
					<-start
					runtime.Gosched()
					relErr = seq.Release()
				}()
			}
			close(start)
			if !ctl.Within(ctl.HangTimeout, wg.Wait) {
				stats.Violation(check, map[string]any{"program": desc, "problem": "hang"})
				rt.Fatalf("concurrent Next calls did not return within %v\n%s", ctl.HangTimeout, ctl.Dump())
			}
			if uint64(g*k) > interval {
				crossed = true
			}
			bad := func(format string, args ...any) {
				msg := fmt.Sprintf(format, args...)
				stats.Violation(check, map[string]any{"program": desc, "problem": msg, "numbers_per_goroutine": out})
				rt.Fatalf("%s\nprogram=%v numbers=%v", msg, desc, out)
			}
			if relErr != nil {
				bad("racing Release failed on a healthy store: %v", relErr)
			}
			lifetimeMax, lifetimeMin, any := uint64(0), ^uint64(0), false
			for i := range out {
				if errs[i] != nil {
					bad("Next failed on a healthy store: %v", errs[i])
				}
				for j, n := range out[i] {
					if j > 0 && n <= out[i][j-1] {
						bad("goroutine %d saw %d after %d (not increasing)", i, n, out[i][j-1])
					}
					if seen[n] {
						bad("number %d handed out twice", n)
					}
					seen[n] = true
					any = true
					lifetimeMax, lifetimeMin = maxU(lifetimeMax, n), minU(lifetimeMin, n)
				}
			}
			if any && have && lifetimeMin <= maxSoFar {
				bad("lifetime %d handed out %d although an earlier lifetime handed out %d", l, lifetimeMin, maxSoFar)
			}
			if any {
				have, maxSoFar = true, maxU(maxSoFar, lifetimeMax)
			}
			if release {
				if err := seq.Release(); err != nil {
					bad("Release failed on a healthy store: %v", err)
				}
			}
			raw, err := inner.Get(seqKey)
			if err != nil || len(raw) != 8 {
				bad("stored mark unreadable: %v %x", err, raw)
			}
			if m := binary.BigEndian.Uint64(raw); m < maxSoFar+1 {
				bad("stored mark %d is not above the handed out number %d", m, maxSoFar)
			} else if release && m != maxSoFar+1 {
				bad("clean Release left the mark at %d, want %d", m, maxSoFar+1)
			}
		}
		labels := []string{fmt.Sprintf("lifetimes_%d", lifetimes)}
		if crossed {
			labels = append(labels, "lease_boundary_crossed_while_racing")
		}
		stats.Case(check, lifetimes >= 2 && crossed, strings.Join(desc, ";"), func() any { return desc }, labels...)
	})
}

func minU(a, b uint64) uint64 {
	if a < b {
		return a
	}

	return b
}

// yieldingKV yields the processor inside Set so that other callers can reach the Sequence while a store write of
// Release or of a lease refill is in flight.
type yieldingKV struct{ kvstore.KVStore }

func (y *yieldingKV) Set(key kvstore.Key, value kvstore.Value) error {
	for i := 0; i < 4; i++ {
		runtime.Gosched()
	}
	time.Sleep(50 * time.Microsecond)

	return y.KVStore.Set(key, value)
}

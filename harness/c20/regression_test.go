package c20

import (
	"context"
	"fmt"
	"sync/atomic"
	"testing"
	"time"

	"github.com/iotaledger/hive.go/app/daemon"
	"verifharness/internal/ctl"
	"verifharness/internal/stats"
)

// D26: BackgroundWorker checked the stopped flag before taking the lock. A registration that passed the check and got
// the lock after the shutdown had collected the workers was added and started but never cancelled (ShutdownAndWait
// hangs when its order's WaitGroup is still awaited, or returns while the worker runs), or - after the shutdown had
// cleared its maps - panicked with "assignment to entry in nil map". The verif hook parks the call in that window.
func TestRegressionRegisterRacingShutdown(t *testing.T) {
	w := []wspec{{Name: "w0", Order: 1, When: "pre", Beh: "hold"}, {Name: "w1", Order: 0, When: "pre", Beh: "hold"}}
	for _, r := range []racer{
		{Name: "r0", Order: 3, Phase: "hook_group", Group: 0}, // started after its order's turn: never cancelled, ShutdownAndWait returns
		{Name: "r0", Order: 3, Phase: "hook_after"},           // maps already cleared: panic
		{Name: "r0", Order: 0, Phase: "hook_group", Group: 0}, // joins a WaitGroup that is still awaited: never cancelled, ShutdownAndWait hangs
	} {
		runScenario(t, scenario{Workers: w, StartMode: "start", Callers: []string{"saw"}, Racers: []racer{r}})
	}
}

// Run waited only for the WaitGroups that existed when it was called: a worker with a new order that was added while
// the daemon was running was not awaited, Run returned while it was still being stopped.
func TestRegressionRunWaitsForWorkersAddedLater(t *testing.T) {
	for i := 0; i < 5; i++ {
		runScenario(t, scenario{Workers: []wspec{{Name: "w0", Order: -1, When: "pre", Beh: "hold"}, {Name: "w1", Order: -2, When: "run", Beh: "hold"}},
			StartMode: "run", Callers: []string{"saw"}})
	}
}

// TestRegressionRunWaitGroupReuse aims at the former known finding KF-C20-1 (fixed in /repo by 90c8b2e): Run is waiting
// while the only worker of an order finishes and the name is registered again under the same order. Run used to panic
// inside sync.WaitGroup in about 2% of the repetitions; any failure of the scenario is a violation.
func TestRegressionRunWaitGroupReuse(t *testing.T) {
	const check = "regression_run_waitgroup_reuse"
	stats.Rule(check, "fixed scenario (Run in its own goroutine, one held worker of order 1, one worker of order 0 that finishes and is re-registered under order 0) repeated 300 times (thorough 20000); the usual scenario oracle, a panic of Run included")
	sc := scenario{Workers: []wspec{{Name: "w0", Order: 0, When: "pre", Beh: "early_rereg", ReOrder: 0, ReBeh: "immediate"}, {Name: "w1", Order: 1, When: "pre", Beh: "hold"}},
		StartMode: "run", Callers: []string{"saw"}}
	n := stats.Scale(300, 20000)
	for i := 0; i < n; i++ {
		labels := map[string]bool{}
		nontrivial := false
		if failure := execScenario(sc, labels, &nontrivial); failure != "" {
			stats.Violation(check, map[string]any{"scenario": sc, "failure": failure})
			t.Fatalf("%s: %s", check, failure)
		}
	}
	stats.Bulk(check, int64(n), 0, false, sc)
}

// Run returned while a worker that had been added at a NEW shutdown order after Run's start was still running, as soon
// as the workers Run knew about had returned on their own - without a shutdown (variant 1) or with an asynchronous
// Shutdown() issued before the last of those workers returned (variant 2). Direct API calls, no scenario machinery.
func TestRegressionRunWaitsForWorkerAtNewOrder(t *testing.T) {
	const check = "regression_run_new_order"
	stats.Rule(check, "fixed histories: worker a (order 0); Run in its own goroutine; worker b (order 1, returns 10 ms after its cancel) is added to the running daemon; [Shutdown()]; a returns on its own. Oracle: Run has not returned while b has not returned (without Shutdown: Run is still waiting 60 ms later; ShutdownAndWait then ends both)")
	fatal := func(format string, a ...any) {
		stats.Violation(check, map[string]any{"failure": fmt.Sprintf(format, a...)})
		t.Fatalf(format, a...)
	}
	for _, withShutdown := range []bool{false, true} {
		for iter := 0; iter < 20; iter++ {
			d := daemon.New()
			release := make(chan struct{})
			if err := d.BackgroundWorker("a", func(ctx context.Context) {
				select {
				case <-release:
				case <-ctx.Done():
				}
			}, 0); err != nil {
				fatal("BackgroundWorker(a): %v", err)
			}
			runReturned := make(chan struct{})
			go func() { d.Run(); close(runReturned) }()
			if !awaitTrue(d.IsRunning, ctl.HangTimeout) {
				fatal("the daemon did not start")
			}
			time.Sleep(2 * time.Millisecond) // Run is waiting now (steering only)
			var bReturned atomic.Bool
			if err := d.BackgroundWorker("b", func(ctx context.Context) {
				<-ctx.Done()
				time.Sleep(10 * time.Millisecond)
				bReturned.Store(true)
			}, 1); err != nil {
				fatal("BackgroundWorker(b) on the running daemon: %v", err)
			}
			if withShutdown {
				d.Shutdown() // asynchronous by contract
			}
			close(release) // a returns on its own
			if withShutdown {
				if !ctl.WaitChan(runReturned, ctl.HangTimeout) {
					fatal("Run did not return after Shutdown()\n%s", ctl.Dump())
				}
				if !bReturned.Load() {
					fatal("iteration %d: Run returned although worker b (added at a new order while the daemon was running) had not returned; Shutdown() had been called before", iter)
				}
			} else {
				if ctl.WaitChan(runReturned, 60*time.Millisecond) && !bReturned.Load() {
					fatal("iteration %d: Run returned while worker b (added at a new order while the daemon was running) is still running and nobody asked for a shutdown", iter)
				}
			}
			if !ctl.WithinHang(d.ShutdownAndWait) {
				fatal("ShutdownAndWait did not return\n%s", ctl.Dump())
			}
			if !ctl.WaitChan(runReturned, ctl.HangTimeout) {
				fatal("Run did not return after ShutdownAndWait\n%s", ctl.Dump())
			}
			if !bReturned.Load() {
				fatal("ShutdownAndWait / Run returned before worker b had returned")
			}
		}
	}
	stats.Bulk(check, 40, 0, false, "a(order 0) | Run | b(order 1) added | [Shutdown] | a returns")
}

func awaitTrue(cond func() bool, max time.Duration) bool {
	for deadline := time.Now().Add(max); time.Now().Before(deadline); time.Sleep(100 * time.Microsecond) {
		if cond() {
			return true
		}
	}

	return cond()
}

// Audit (ninth round, C20-4): Shutdown() only spawned the goroutine that marks the daemon as stopped. Right after the
// call returned, BackgroundWorker still accepted (and launched) a worker, and Start on a daemon that had not been
// started launched every registered worker. Repaired in /repo by f78b163 (the flag is set before Shutdown returns).
func TestRegressionNothingStartsAfterAsyncShutdown(t *testing.T) {
	const check = "regression_nothing_starts_after_async_shutdown"
	stats.Rule(check, "fixed histories repeated 200 times: (1) Start; Shutdown(); BackgroundWorker must return ErrDaemonAlreadyStopped and its handler never runs; (2) one registered worker, Shutdown() on the daemon that was never started, Start(): the worker is never launched. Both are followed by ShutdownAndWait and a settle period")
	n := 200
	for i := 0; i < n; i++ {
		var ran atomic.Int64
		h := func(ctx context.Context) { ran.Add(1); <-ctx.Done() }
		d := daemon.New()
		d.Start()
		d.Shutdown()
		err := d.BackgroundWorker("late", h, 5)
		d.ShutdownAndWait()
		if err == nil || ran.Load() != 0 {
			f := fmt.Sprintf("iteration %d: BackgroundWorker after Shutdown() returned err=%v, handler runs=%d", i, err, ran.Load())
			stats.Violation(check, map[string]any{"history": "Start; Shutdown; BackgroundWorker", "failure": f})
			t.Fatalf("%s: %s", check, f)
		}
		d = daemon.New()
		if err := d.BackgroundWorker("w", h, 1); err != nil {
			t.Fatal(err)
		}
		d.Shutdown()
		d.Start()
		d.ShutdownAndWait()
		ctl.Settle(200 * time.Microsecond)
		if ran.Load() != 0 {
			f := fmt.Sprintf("iteration %d: Start after Shutdown() launched the registered worker", i)
			stats.Violation(check, map[string]any{"history": "BackgroundWorker; Shutdown; Start", "failure": f})
			t.Fatalf("%s: %s", check, f)
		}
	}
	stats.Bulk(check, int64(n), 2, false, "Start;Shutdown;BackgroundWorker / BackgroundWorker;Shutdown;Start")
}

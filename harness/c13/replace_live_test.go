package c13

import (
	"fmt"
	"sort"
	"sync"
	"sync/atomic"
	"testing"

	"github.com/iotaledger/hive.go/ds"
	"github.com/iotaledger/hive.go/ds/reactive"
	"pgregory.net/rapid"
	"verifharness/internal/ctl"
	"verifharness/internal/stats"
)

// TestReplaceWithLiveArgument: Replace is handed a thread-safe set that another goroutine keeps writing to. Whatever
// instant of the argument Replace takes, the difference it reports to the subscribers has to be the difference it
// applied: after everything has stopped the fold of the reports equals the contents.
func TestReplaceWithLiveArgument(t *testing.T) {
	const check = "replace_with_live_argument"
	stats.Rule(check, "rapid draws the universe size 2..6, the kind of the argument (reactive.Set or ds.Set), 50..300 Replace(argument) calls on the target and a writer goroutine that adds and deletes elements of the argument until the calls are done; one subscriber folds the target's reports (strict: nothing reported twice). Oracle at quiescence (20 s watchdog): fold == target contents. The interleaving is the scheduler's. Distinct by configuration; non-trivial = every case")
	rapid.Check(t, func(rt *rapid.T) {
		u := rapid.IntRange(2, 6).Draw(rt, "universe")
		plain := rapid.Bool().Draw(rt, "argumentIsPlainSet")
		calls := rapid.IntRange(50, 300).Draw(rt, "replaceCalls")
		desc := fmt.Sprintf("universe=%d argumentIsPlainSet=%v replaceCalls=%d", u, plain, calls)
		var arg ds.Set[int] = ds.NewSet[int]()
		if !plain {
			arg = reactive.NewSet[int]()
		}
		target := reactive.NewSet[int]()
		fold := map[int]bool{}
		var problem atomic.Value
		unsub := target.OnUpdate(func(m ds.SetMutations[int]) {
			m.AddedElements().Range(func(e int) {
				if fold[e] {
					problem.Store(fmt.Sprintf("element %d reported as added although the subscriber already has it", e))
				}
				fold[e] = true
			})
			m.DeletedElements().Range(func(e int) {
				if !fold[e] {
					problem.Store(fmt.Sprintf("element %d reported as deleted although the subscriber does not have it", e))
				}
				delete(fold, e)
			})
		})
		defer unsub()
		var stop atomic.Bool
		var wg sync.WaitGroup
		wg.Add(1)
		go func() {
			defer wg.Done()
			for i := 0; !stop.Load(); i++ {
				arg.Add(i % u)
				arg.Delete((i + u/2) % u)
			}
		}()
		done := make(chan struct{})
		go func() {
			defer close(done)
			for i := 0; i < calls; i++ {
				target.Replace(arg)
			}
		}()
		ok := ctl.WaitHang(done)
		stop.Store(true)
		fail := func(format string, a ...any) {
			msg := fmt.Sprintf(format, a...)
			stats.Violation(check, map[string]any{"config": desc, "problem": msg})
			rt.Fatalf("%s: %s", desc, msg)
		}
		if !ok || !ctl.WithinHang(wg.Wait) {
			fail("Replace calls or the writer of the argument did not return\n%s", ctl.Dump())
		}
		want := target.ToSlice()
		sort.Ints(want)
		var got []int
		for e := range fold {
			got = append(got, e)
		}
		sort.Ints(got)
		if p := problem.Load(); p != nil {
			fail("%v", p)
		}
		if fmt.Sprint(got) != fmt.Sprint(want) {
			fail("the fold of the reported mutations is %v, the set holds %v", got, want)
		}
		stats.Case(check, true, desc, func() any { return desc })
	})
}

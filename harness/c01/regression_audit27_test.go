// Demonstration of an independent auditor (sixth round), kept as a regression test; see known_findings.json.
package c01

import (
	"context"
	"testing"

	"github.com/stretchr/testify/require"

	"github.com/iotaledger/hive.go/serializer/v2/serix"
)

type huntBalances map[string]uint64

type huntTypedBytes []byte

// A top-level map (and a top-level typed byte slice) has a JSON/map form: MapEncode/JSONEncode write it. The destination
// of MapDecode/JSONDecode has to be a pointer, and mapDecodeBasedOnType knows pointers to structs, interfaces and arrays
// only: the encoder's own output can not be read back, while the binary form round-trips the same values.
func TestRegressionAudit27TopLevelMapJSONRoundTrip(t *testing.T) {
	api := serix.NewAPI()
	require.NoError(t, api.RegisterTypeSettings(huntBalances{}, serix.TypeSettings{}.WithLengthPrefixType(serix.LengthPrefixTypeAsByte)))
	require.NoError(t, api.RegisterTypeSettings("", serix.TypeSettings{}.WithLengthPrefixType(serix.LengthPrefixTypeAsByte)))
	require.NoError(t, api.RegisterTypeSettings(huntTypedBytes{}, serix.TypeSettings{}.WithObjectType(uint8(7)).WithLengthPrefixType(serix.LengthPrefixTypeAsByte)))
	ctx := context.Background()

	t.Run("map", func(t *testing.T) {
		src := huntBalances{"alice": 1, "bob": 2}

		// the binary form round-trips
		b, err := api.Encode(ctx, src)
		require.NoError(t, err)
		var fromBin huntBalances
		n, err := api.Decode(ctx, b, &fromBin)
		require.NoError(t, err)
		require.Equal(t, len(b), n)
		require.Equal(t, src, fromBin)

		// the JSON form is written ...
		j, err := api.JSONEncode(ctx, src)
		require.NoError(t, err)
		t.Logf("json: %s", j)

		// ... but can not be read
		var fromJSON huntBalances
		require.NoError(t, api.JSONDecode(ctx, j, &fromJSON), "JSONDecode of the output of JSONEncode")
		require.Equal(t, src, fromJSON)
	})

	t.Run("typed byte slice", func(t *testing.T) {
		src := huntTypedBytes{1, 2, 3}

		b, err := api.Encode(ctx, src)
		require.NoError(t, err)
		var fromBin huntTypedBytes
		n, err := api.Decode(ctx, b, &fromBin)
		require.NoError(t, err)
		require.Equal(t, len(b), n)
		require.Equal(t, src, fromBin)

		j, err := api.JSONEncode(ctx, src)
		require.NoError(t, err)
		t.Logf("json: %s", j)

		var fromJSON huntTypedBytes
		require.NoError(t, api.JSONDecode(ctx, j, &fromJSON), "JSONDecode of the output of JSONEncode")
		require.Equal(t, src, fromJSON)
	})
}

package c12

import (
	"testing"
	"time"

	"github.com/iotaledger/hive.go/ds/timeheap"
	"github.com/iotaledger/hive.go/ds/walker"
	"github.com/iotaledger/hive.go/web/subscriptionmanager"
	"verifharness/internal/stats"
)

// Shrunk failing cases of the defects the state machines found, replayed without rapid.

// D14: PushFront returned at the first already-seen element instead of skipping it, so the rest of the
// batch was neither queued nor marked as pushed. Shrunk case: PushFront(1, 1, 0) on a fresh walker.
func TestRegressionWalkerPushFrontSkipsSeen(t *testing.T) {
	const check = "regression_walker_pushfront"
	h := newHist(check, "revisit=false")
	w := walker.New[int]()
	w.PushFront(1, 1, 0)
	h.op("PushFront([1 1 0])")
	if !w.Pushed(0) {
		h.fail(t, "Pushed(0) = false after PushFront(1,1,0): the batch was abandoned at the repeated element")
	}
	var got []int
	for w.HasNext() {
		got = append(got, w.Next())
	}
	h.op("walk=%v", got)
	if !equalInts(got, []int{0, 1}) {
		h.fail(t, "walk after PushFront(1,1,0) = %v, want [0 1] (each new element pushed to the front in turn, the repeat skipped)", got)
	}

	// same with an element seen through an earlier Push
	w = walker.New[int]()
	h = newHist(check, "revisit=false")
	w.Push(5)
	w.PushFront(5, 6)
	h.op("Push(5); PushFront([5 6])")
	got = nil
	for w.HasNext() {
		got = append(got, w.Next())
	}
	h.op("walk=%v", got)
	if !equalInts(got, []int{6, 5}) {
		h.fail(t, "walk after Push(5); PushFront(5,6) = %v, want [6 5]", got)
	}
	stats.Case(check, true, "walker-pushfront", nil)
}

// D15: Clear emptied the heap but kept the running total, so everything cleared was still reported (and,
// with the heap empty, could never expire). Shrunk case: Add(1); Clear(); AveragePerSecond(1h) != 0.
func TestRegressionTimeHeapClearResetsTotal(t *testing.T) {
	const check = "regression_timeheap_clear"
	h := newHist(check, "")
	th := timeheap.NewTimeHeap()
	th.Add(1)
	th.Clear()
	avg := th.AveragePerSecond(time.Hour)
	h.op("Add(1); Clear(); AveragePerSecond(1h)=%v", avg)
	if avg != 0 {
		h.fail(t, "AveragePerSecond(1h) = %v after Add(1); Clear(), want 0", avg)
	}
	th.Add(7200)
	avg = th.AveragePerSecond(time.Hour)
	h.op("Add(7200); AveragePerSecond(1h)=%v", avg)
	if got := thSum(avg); got != 7200 {
		h.fail(t, "AveragePerSecond(1h) = %v (sum %d) after Clear(); Add(7200), want a sum of 7200", avg, got)
	}
	stats.Case(check, true, "timeheap-clear", nil)
}

func newRegressionManager(max int, log *[]string) *subMgr {
	mgr := subscriptionmanager.New[int, int](
		subscriptionmanager.WithMaxTopicSubscriptionsPerClient[int, int](max),
		subscriptionmanager.WithCleanupThresholdRatio[int, int](0),
		subscriptionmanager.WithCleanupThresholdCount[int, int](0),
	)
	subHook(mgr, log)
	return mgr
}

// New defect (not in DESIGN section 3): Subscribe of a client that is not connected changed nothing but
// returned true and emitted TopicSubscribed. Shrunk case: Subscribe(c0,t0) on a fresh manager.
func TestRegressionSubscribeNotConnected(t *testing.T) {
	const check = "regression_subscribe_not_connected"
	h := newHist(check, "max=0")
	var log []string
	mgr := newRegressionManager(0, &log)
	got := mgr.Subscribe(0, 0)
	h.op("Subscribe(c0,t0)=%v ev=%v", got, log)
	if got || len(log) != 0 {
		h.fail(t, "Subscribe of a client that never connected returned %v and emitted %v; want false and no events (nothing was subscribed)", got, log)
	}
	if mgr.TopicHasSubscribers(0) || mgr.ClientSubscribedToTopic(0, 0) || mgr.TopicsSize() != 0 {
		h.fail(t, "Subscribe of a client that never connected changed the state")
	}
	stats.Case(check, true, "subscribe-not-connected", nil)
}

// D16: at the subscription limit the new topic was entered into the client's map before the limit check; the
// clean-up of the dropped client then "unsubscribed" a topic it never held: a spurious TopicUnsubscribed, and if
// another client held the topic, that client's global count was decremented (TopicRemoved emitted,
// TopicHasSubscribers false while the other client is still subscribed).
func TestRegressionSubscribeLimitSharedTopic(t *testing.T) {
	const check = "regression_subscribe_limit"

	// shrunk case: limit 1, the very first subscription drops the client
	h := newHist(check, "max=1")
	var log []string
	mgr := newRegressionManager(1, &log)
	mgr.Connect(0)
	log = nil
	got := mgr.Subscribe(0, 0)
	h.op("Connect(c0); Subscribe(c0,t0)=%v ev=%v", got, log)
	if want := []string{"ClientDisconnected(c0)", "DropClient(c0,limit)"}; got || !equalStrings(sortedStrings(log), want) {
		h.fail(t, "Subscribe at the limit returned %v and emitted %v, want false and %v (t0 was never subscribed, so there is nothing to unsubscribe)", got, sortedStrings(log), want)
	}

	// the same root cause with a topic another client holds
	h = newHist(check, "max=2")
	log = nil
	mgr = newRegressionManager(2, &log)
	mgr.Connect(0)
	mgr.Subscribe(0, 0) // client 0 holds topic 0
	mgr.Connect(1)
	mgr.Subscribe(1, 1)
	log = nil
	got = mgr.Subscribe(1, 0) // second distinct topic of client 1 = limit -> dropped
	h.op("Connect(c0); Subscribe(c0,t0); Connect(c1); Subscribe(c1,t1); Subscribe(c1,t0)=%v ev=%v", got, log)
	want := []string{"ClientDisconnected(c1)", "DropClient(c1,limit)", "TopicRemoved(t1)", "TopicUnsubscribed(c1,t1)"}
	if got || !equalStrings(sortedStrings(log), want) {
		h.fail(t, "Subscribe at the limit returned %v and emitted %v, want false and %v", got, sortedStrings(log), want)
	}
	if !mgr.TopicHasSubscribers(0) || !mgr.ClientSubscribedToTopic(0, 0) {
		h.fail(t, "after client 1 was dropped: TopicHasSubscribers(t0)=%v, ClientSubscribedToTopic(c0,t0)=%v; client 0 still holds topic 0, both must be true", mgr.TopicHasSubscribers(0), mgr.ClientSubscribedToTopic(0, 0))
	}
	log = nil
	mgr.Unsubscribe(0, 0)
	h.op("Unsubscribe(c0,t0) ev=%v", log)
	if want := []string{"TopicRemoved(t0)", "TopicUnsubscribed(c0,t0)"}; !equalStrings(sortedStrings(log), want) {
		h.fail(t, "Unsubscribe(c0,t0) of the last holder emitted %v, want %v", sortedStrings(log), want)
	}
	stats.Case(check, true, "subscribe-limit", nil)
}

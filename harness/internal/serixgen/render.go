package serixgen

import (
	"fmt"
	"math"
	"reflect"
	"sort"
	"strings"
	"time"
)

// Render prints a value structurally (pointers and interfaces dereferenced, maps in key order) so that it can
// serve as a canonical case key and as a readable sample.
func Render(n *Node, v reflect.Value) string {
	var sb strings.Builder
	render(&sb, n, v)

	return sb.String()
}

func render(sb *strings.Builder, n *Node, v reflect.Value) {
	switch n.Kind {
	case KBool:
		fmt.Fprintf(sb, "%v", v.Bool())
	case KInt8, KInt16, KInt32, KInt64:
		fmt.Fprintf(sb, "%d", v.Int())
	case KUint8, KUint16, KUint32, KUint64:
		fmt.Fprintf(sb, "%d", v.Uint())
	case KFloat32:
		f, _ := v.Convert(numTypes[KFloat32]).Interface().(float32)
		fmt.Fprintf(sb, "f32:%08x", math.Float32bits(f))
	case KFloat64:
		fmt.Fprintf(sb, "f64:%016x", math.Float64bits(v.Float()))
	case KString:
		fmt.Fprintf(sb, "%q", v.String())
	case KBytes:
		if v.IsNil() {
			sb.WriteString("nil")
		} else {
			fmt.Fprintf(sb, "x'%x'", v.Bytes())
		}
	case KByteArr:
		sb.WriteString("x'")
		for i := 0; i < n.N; i++ {
			fmt.Fprintf(sb, "%02x", v.Index(i).Uint())
		}
		sb.WriteString("'")
	case KBigInt:
		if bi := BigOf(v); bi == nil {
			sb.WriteString("nil")
		} else {
			sb.WriteString(bi.String())
		}
	case KTime:
		tm, _ := v.Interface().(time.Time)
		fmt.Fprintf(sb, "t(%d,%d)", tm.Unix(), tm.Nanosecond())
	case KSlice, KArray:
		if n.Kind == KSlice && v.IsNil() {
			sb.WriteString("nil")
			return
		}
		sb.WriteString("[")
		for i := 0; i < v.Len(); i++ {
			if i > 0 {
				sb.WriteString(" ")
			}
			render(sb, n.Elem, v.Index(i))
		}
		sb.WriteString("]")
	case KMap:
		if v.IsNil() {
			sb.WriteString("nil")
			return
		}
		type kv struct{ k, v string }
		var es []kv
		it := v.MapRange()
		for it.Next() {
			es = append(es, kv{Render(n.Key, it.Key()), Render(n.Elem, it.Value())})
		}
		sort.Slice(es, func(i, j int) bool { return es[i].k < es[j].k })
		sb.WriteString("{")
		for i, e := range es {
			if i > 0 {
				sb.WriteString(" ")
			}
			sb.WriteString(e.k + ":" + e.v)
		}
		sb.WriteString("}")
	case KStruct:
		sb.WriteString("(")
		for i, f := range n.Fields {
			if i > 0 {
				sb.WriteString(" ")
			}
			fv := v.Field(f.Index)
			fn := f.N
			if f.Embedded && f.EmbPtr {
				if fv.IsNil() {
					sb.WriteString("nil")
					continue
				}
				fv, fn = fv.Elem(), fn.Elem
			}
			render(sb, fn, fv)
		}
		sb.WriteString(")")
	case KPtr:
		if v.IsNil() {
			sb.WriteString("nil")
			return
		}
		sb.WriteString("&")
		render(sb, n.Elem, v.Elem())
	case KIface:
		if v.IsNil() {
			sb.WriteString("nil")
			return
		}
		dyn := v.Elem()
		for _, im := range n.Impls {
			if im.T == dyn.Type() {
				name := im.Name
				if im.Kind == KPtr {
					name = im.Elem.Name
				}
				sb.WriteString(name)
				render(sb, im, dyn)
				return
			}
		}
		fmt.Fprintf(sb, "?%s", dyn.Type())
	case KCustom:
		fmt.Fprintf(sb, "%+v", v.Interface())
	}
}

// Demonstration of an independent auditor (sixteenth round), kept as a regression test; see known_findings.json.
package c01

import (
	"context"
	"testing"

	"github.com/iotaledger/hive.go/serializer/v2/serix"
)

type hunt42Arr [4]byte

// A value of type *hunt42Arr is encoded with call-level type settings and read back into a variable of the same type
// (Decode(b, &sameTypedVariable)) with the same settings. The binary form round-trips; the JSON form does not: the
// encoder recognises the array as the object of the call (its address is the pointer handed in), the decoder compares
// the address of the array with the address of the pointer VARIABLE and falls back to the registry.
func TestRegressionAudit42_42PointerValueCallSettings(t *testing.T) {
	api := serix.NewAPI()
	ctx := context.Background()
	ts := serix.TypeSettings{}.WithObjectType(uint8(7))
	p := &hunt42Arr{1, 2, 3, 4}

	// binary form: fine
	b, err := api.Encode(ctx, p, serix.WithTypeSettings(ts))
	if err != nil {
		t.Fatal(err)
	}
	var pb *hunt42Arr
	if _, err := api.Decode(ctx, b, &pb, serix.WithTypeSettings(ts)); err != nil {
		t.Fatalf("binary decode: %v", err)
	}
	if pb == nil || *pb != *p {
		t.Fatalf("binary mismatch")
	}

	// JSON form
	j, err := api.JSONEncode(ctx, p, serix.WithTypeSettings(ts))
	if err != nil {
		t.Fatal(err)
	}
	t.Logf("JSONEncode(p): %s", j)
	var p2 *hunt42Arr
	if err := api.JSONDecode(ctx, j, &p2, serix.WithTypeSettings(ts)); err != nil {
		t.Errorf("JSONDecode(JSONEncode(p), &p2) with p, p2 of type *hunt42Arr and the same call settings failed: %v", err)
	} else if p2 == nil || *p2 != *p {
		t.Errorf("mismatch %v", p2)
	}

	// the other direction: the same value handed over as &p (binary: fine; JSON: the settings of the call are dropped,
	// a bare hex string is produced and MapEncode fails) although JSONDecode(.., &p2) is the only way to read into p2
	var q *hunt42Arr
	bq, err := api.Encode(ctx, &p, serix.WithTypeSettings(ts))
	if err != nil {
		t.Fatal(err)
	}
	if _, err := api.Decode(ctx, bq, &q, serix.WithTypeSettings(ts)); err != nil || *q != *p {
		t.Fatalf("binary &p: %v", err)
	}
	if _, err := api.JSONEncode(ctx, &p, serix.WithTypeSettings(ts)); err != nil {
		t.Errorf("JSONEncode(&p) with call settings: %v (JSONEncode(p) with the same settings works)", err)
	}
}

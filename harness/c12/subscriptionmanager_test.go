package c12

import (
	"errors"
	"fmt"
	"testing"

	"github.com/iotaledger/hive.go/runtime/options"
	"github.com/iotaledger/hive.go/web/subscriptionmanager"
	"pgregory.net/rapid"
	"verifharness/internal/stats"
)

const (
	subClients = 3
	subTopics  = 4
)

type subMgr = subscriptionmanager.SubscriptionManager[int, int]

// subModel is the abstract manager: connected clients -> topic -> number of subscriptions.
// The global subscriber count of a topic is by definition the sum over the clients.
type subModel struct {
	max     int
	clients map[int]map[int]int
}

func (m *subModel) global(topic int) int {
	n := 0
	for _, ts := range m.clients {
		n += ts[topic]
	}
	return n
}

// cleanup removes the client with all its subscriptions and returns the events that mirror it
// (one TopicUnsubscribed per subscription, TopicRemoved for every topic nobody holds any more).
func (m *subModel) cleanup(c int) (events []string) {
	ts := m.clients[c]
	delete(m.clients, c)
	for t, n := range ts {
		for i := 0; i < n; i++ {
			events = append(events, fmt.Sprintf("TopicUnsubscribed(c%d,t%d)", c, t))
		}
		if m.global(t) == 0 {
			events = append(events, fmt.Sprintf("TopicRemoved(t%d)", t))
		}
	}
	return events
}

func (m *subModel) connect(c int) (events []string) {
	if _, ok := m.clients[c]; ok {
		events = append(m.cleanup(c), fmt.Sprintf("ClientDisconnected(c%d)", c))
	}
	m.clients[c] = map[int]int{}
	return append(events, fmt.Sprintf("ClientConnected(c%d)", c))
}

func (m *subModel) disconnect(c int) (bool, []string) {
	if _, ok := m.clients[c]; !ok {
		return false, nil
	}
	return true, append(m.cleanup(c), fmt.Sprintf("ClientDisconnected(c%d)", c))
}

// subscribe: a client that is not connected is refused. A further subscription to a topic the client
// already holds only counts up. A new topic that would bring the client to the limit of distinct topics
// (limit != 0 and distinct+1 >= limit, as implemented and as the package's own limit test expects) drops the
// client instead: its existing subscriptions are cleaned up, DropClient and ClientDisconnected are emitted,
// the new topic is never subscribed.
func (m *subModel) subscribe(c, t int) (ok bool, events []string, dropped bool) {
	ts, connected := m.clients[c]
	if !connected {
		return false, nil, false
	}
	if ts[t] == 0 && m.max != 0 && len(ts)+1 >= m.max {
		events = append(m.cleanup(c), fmt.Sprintf("DropClient(c%d,limit)", c), fmt.Sprintf("ClientDisconnected(c%d)", c))
		return false, events, true
	}
	if m.global(t) == 0 {
		events = append(events, fmt.Sprintf("TopicAdded(t%d)", t))
	}
	ts[t]++
	return true, append(events, fmt.Sprintf("TopicSubscribed(c%d,t%d)", c, t)), false
}

func (m *subModel) unsubscribe(c, t int) (bool, []string) {
	ts, connected := m.clients[c]
	if !connected || ts[t] == 0 {
		return false, nil
	}
	ts[t]--
	if ts[t] == 0 {
		delete(ts, t)
	}
	var events []string
	if m.global(t) == 0 {
		events = append(events, fmt.Sprintf("TopicRemoved(t%d)", t))
	}
	return true, append(events, fmt.Sprintf("TopicUnsubscribed(c%d,t%d)", c, t))
}

// subHook records every event of the manager as a string.
func subHook(mgr *subMgr, log *[]string) {
	ev := mgr.Events()
	ev.ClientConnected.Hook(func(e *subscriptionmanager.ClientEvent[int]) {
		*log = append(*log, fmt.Sprintf("ClientConnected(c%d)", e.ClientID))
	})
	ev.ClientDisconnected.Hook(func(e *subscriptionmanager.ClientEvent[int]) {
		*log = append(*log, fmt.Sprintf("ClientDisconnected(c%d)", e.ClientID))
	})
	ev.TopicSubscribed.Hook(func(e *subscriptionmanager.ClientTopicEvent[int, int]) {
		*log = append(*log, fmt.Sprintf("TopicSubscribed(c%d,t%d)", e.ClientID, e.Topic))
	})
	ev.TopicUnsubscribed.Hook(func(e *subscriptionmanager.ClientTopicEvent[int, int]) {
		*log = append(*log, fmt.Sprintf("TopicUnsubscribed(c%d,t%d)", e.ClientID, e.Topic))
	})
	ev.TopicAdded.Hook(func(e *subscriptionmanager.TopicEvent[int]) {
		*log = append(*log, fmt.Sprintf("TopicAdded(t%d)", e.Topic))
	})
	ev.TopicRemoved.Hook(func(e *subscriptionmanager.TopicEvent[int]) {
		*log = append(*log, fmt.Sprintf("TopicRemoved(t%d)", e.Topic))
	})
	ev.DropClient.Hook(func(e *subscriptionmanager.DropClientEvent[int]) {
		reason := "other"
		if errors.Is(e.Reason, subscriptionmanager.ErrMaxTopicSubscriptionsPerClientReached) {
			reason = "limit"
		}
		*log = append(*log, fmt.Sprintf("DropClient(c%d,%s)", e.ClientID, reason))
	})
}

// subObserve compares every observer of the manager with the model over the whole universe.
func subObserve(m *subModel, mgr *subMgr) string {
	distinctTopics, totalPerClient := 0, 0
	for t := 0; t < subTopics; t++ {
		g := m.global(t)
		if g > 0 {
			distinctTopics++
		}
		if got := mgr.TopicHasSubscribers(t); got != (g > 0) {
			return fmt.Sprintf("TopicHasSubscribers(t%d) = %v, but the clients hold %d subscriptions of it (model %v)", t, got, g, m.clients)
		}
		for c := 0; c < subClients; c++ {
			want := m.clients[c][t] > 0
			if got := mgr.ClientSubscribedToTopic(c, t); got != want {
				return fmt.Sprintf("ClientSubscribedToTopic(c%d,t%d) = %v, want %v (model %v)", c, t, got, want, m.clients)
			}
		}
	}
	for _, ts := range m.clients {
		totalPerClient += len(ts)
	}
	if got := mgr.SubscribersSize(); got != len(m.clients) {
		return fmt.Sprintf("SubscribersSize = %d, want %d (model %v)", got, len(m.clients), m.clients)
	}
	if got := mgr.TopicsSize(); got != distinctTopics {
		return fmt.Sprintf("TopicsSize = %d, want %d topics with subscribers (model %v)", got, distinctTopics, m.clients)
	}
	if got := mgr.TopicsSizeAll(); got != totalPerClient {
		return fmt.Sprintf("TopicsSizeAll = %d, want %d (model %v)", got, totalPerClient, m.clients)
	}
	return ""
}

// TestSubscriptionManager: per-topic subscriber counts equal the sum of the clients' subscriptions and the
// emitted events mirror every state change, including forced drops at the subscription limit. The events of one
// call are compared as a multiset (clean-up walks a Go map).
func TestSubscriptionManager(t *testing.T) {
	const check = "subscriptionmanager"
	stats.Rule(check, "rapid state machine over SubscriptionManager[int,int], 3 clients x 4 topics, max subscriptions per client {0,1,2,3,4}, cleanup thresholds ratio{0,1} x count{0,1,10000}; Connect/Disconnect/Subscribe/Unsubscribe with return values, every observer (TopicHasSubscribers, ClientSubscribedToTopic, SubscribersSize, TopicsSize, TopicsSizeAll) over the whole universe after every step, and the multiset of events of each call vs the model (clients -> topic -> count; global count = sum); non-trivial = two clients held the same topic at some point and one of {a drop at the limit, a Connect of a connected client holding subscriptions, an Unsubscribe from a multiply subscribed topic} happened afterwards; distinct by (options, operation list)")
	rapid.Check(t, func(rt *rapid.T) {
		max := rapid.SampledFrom([]int{0, 0, 1, 2, 2, 3, 3, 4, 4}).Draw(rt, "max")
		ratio := rapid.SampledFrom([]float32{0, 1}).Draw(rt, "ratio")
		count := rapid.SampledFrom([]int{0, 1, 10000}).Draw(rt, "count")
		h := newHist(check, fmt.Sprintf("max=%d,cleanupRatio=%v,cleanupCount=%d", max, ratio, count))
		defer h.guard(rt)
		var opts []options.Option[subMgr]
		if max != 0 || rapid.Bool().Draw(rt, "explicitZero") {
			opts = append(opts, subscriptionmanager.WithMaxTopicSubscriptionsPerClient[int, int](max))
		}
		opts = append(opts, subscriptionmanager.WithCleanupThresholdRatio[int, int](ratio), subscriptionmanager.WithCleanupThresholdCount[int, int](count))
		mgr := subscriptionmanager.New[int, int](opts...)
		var log []string
		subHook(mgr, &log)
		m := &subModel{max: max, clients: map[int]map[int]int{}}
		shared, afterShared := false, false
		anyClient := rapid.IntRange(0, subClients-1)
		anyTopic := rapid.IntRange(0, subTopics-1)
		// client: mostly a connected one (operations of unknown clients are refused and teach little)
		client := rapid.Custom(func(t *rapid.T) int {
			c := anyClient.Draw(t, "client")
			if _, ok := m.clients[c]; ok || len(m.clients) == 0 || rapid.IntRange(0, 3).Draw(t, "allowUnknown") == 0 {
				return c
			}
			for i := 1; i < subClients; i++ {
				if _, ok := m.clients[(c+i)%subClients]; ok {
					return (c + i) % subClients
				}
			}
			return c
		})
		// topicFor: half of the time a topic that a client other than c holds (shared topics, drops on a
		// topic somebody else holds), otherwise any topic (new topics, repeated subscriptions)
		topicFor := func(c int) *rapid.Generator[int] {
			return rapid.Custom(func(t *rapid.T) int {
				tp := anyTopic.Draw(t, "topic")
				if rapid.Bool().Draw(t, "preferHeldByOther") {
					for i := 0; i < subTopics; i++ {
						cand := (tp + i) % subTopics
						if m.global(cand)-m.clients[c][cand] > 0 {
							return cand
						}
					}
				}
				return tp
			})
		}

		compareEvents := func(rt *rapid.T, what string, want []string) {
			if got, want := sortedStrings(log), sortedStrings(want); !equalStrings(got, want) {
				h.fail(rt, "%s emitted events %v, want %v (as multisets)", what, got, want)
			}
		}
		noteShared := func() {
			for t := 0; t < subTopics; t++ {
				holders := 0
				for _, ts := range m.clients {
					if ts[t] > 0 {
						holders++
					}
				}
				if holders >= 2 {
					shared = true
					h.label("topic_shared_by_clients")
				}
			}
		}
		interesting := func(l string) {
			h.label(l)
			if shared {
				afterShared = true
			}
		}

		acts := weighted{}
		acts.add("Connect", 3, func(rt *rapid.T) {
			c := anyClient.Draw(rt, "c")
			if ts, ok := m.clients[c]; ok {
				if len(ts) > 0 {
					interesting("reconnect_with_subscriptions")
				} else {
					h.label("reconnect_idle")
				}
			}
			log = nil
			mgr.Connect(c)
			h.op("Connect(c%d) ev=%v", c, sortedStrings(log))
			compareEvents(rt, fmt.Sprintf("Connect(c%d)", c), m.connect(c))
		})
		acts.add("Disconnect", 2, func(rt *rapid.T) {
			c := client.Draw(rt, "c")
			log = nil
			got := mgr.Disconnect(c)
			h.op("Disconnect(c%d)=%v ev=%v", c, got, sortedStrings(log))
			want, events := m.disconnect(c)
			if got != want {
				h.fail(rt, "Disconnect(c%d) = %v, want %v", c, got, want)
			}
			compareEvents(rt, fmt.Sprintf("Disconnect(c%d)", c), events)
		})
		acts.add("Subscribe", 8, func(rt *rapid.T) {
			c := client.Draw(rt, "c")
			tp := topicFor(c).Draw(rt, "t")
			heldByOther := false
			for oc, ts := range m.clients {
				if oc != c && ts[tp] > 0 {
					heldByOther = true
				}
			}
			log = nil
			got := mgr.Subscribe(c, tp)
			h.op("Subscribe(c%d,t%d)=%v ev=%v", c, tp, got, sortedStrings(log))
			want, events, dropped := m.subscribe(c, tp)
			if dropped {
				interesting("drop_at_limit")
				if heldByOther {
					h.label("drop_on_topic_held_by_other_client")
				}
			}
			if got != want {
				h.fail(rt, "Subscribe(c%d,t%d) = %v, want %v", c, tp, got, want)
			}
			compareEvents(rt, fmt.Sprintf("Subscribe(c%d,t%d)", c, tp), events)
			if want && m.clients[c][tp] > 1 {
				h.label("subscribed_same_topic_again")
			}
			noteShared()
		})
		acts.add("Unsubscribe", 4, func(rt *rapid.T) {
			c := client.Draw(rt, "c")
			tp := anyTopic.Draw(rt, "t")
			if rapid.Bool().Draw(rt, "preferOwn") {
				// a topic the client holds, if any
				for i := 0; i < subTopics; i++ {
					if m.clients[c][(tp+i)%subTopics] > 0 {
						tp = (tp + i) % subTopics

						break
					}
				}
			}
			if m.clients[c][tp] > 1 {
				interesting("unsubscribe_multiply_subscribed")
			}
			log = nil
			got := mgr.Unsubscribe(c, tp)
			h.op("Unsubscribe(c%d,t%d)=%v ev=%v", c, tp, got, sortedStrings(log))
			want, events := m.unsubscribe(c, tp)
			if got != want {
				h.fail(rt, "Unsubscribe(c%d,t%d) = %v, want %v", c, tp, got, want)
			}
			compareEvents(rt, fmt.Sprintf("Unsubscribe(c%d,t%d)", c, tp), events)
		})
		acts[""] = func(rt *rapid.T) {
			log = nil
			if msg := subObserve(m, mgr); msg != "" {
				h.fail(rt, "%s", msg)
			}
			if len(log) != 0 {
				h.fail(rt, "observers emitted events %v", log)
			}
		}
		rt.Repeat(acts)

		// wind down: disconnecting everybody must remove every topic and leave nothing behind
		for c := 0; c < subClients; c++ {
			log = nil
			got := mgr.Disconnect(c)
			h.op("final Disconnect(c%d)=%v ev=%v", c, got, sortedStrings(log))
			want, events := m.disconnect(c)
			if got != want {
				h.fail(rt, "final Disconnect(c%d) = %v, want %v", c, got, want)
			}
			compareEvents(rt, fmt.Sprintf("final Disconnect(c%d)", c), events)
			if msg := subObserve(m, mgr); msg != "" {
				h.fail(rt, "%s", msg)
			}
		}
		h.done(shared && afterShared)
	})
}

package c01

import (
	"bytes"
	"encoding/hex"
	"fmt"
	"reflect"
	"sort"
	"testing"

	"pgregory.net/rapid"
	"verifharness/internal/serixgen"
	"verifharness/internal/stats"
)

func cfg() serixgen.Config {
	if stats.Tier() == "thorough" {
		return serixgen.ThoroughConfig
	}
	return serixgen.QuickConfig
}

func featureList(n *serixgen.Node) ([]string, int) {
	fs := map[string]bool{}
	d := n.Features(fs, 1)
	out := make([]string, 0, len(fs))
	for f := range fs {
		out = append(out, f)
	}
	sort.Strings(out)
	return out, d
}

var interesting = map[string]bool{"optional": true, "interface": true, "map": true, "array_of_nonbytes": true, "inlined_or_embedded": true,
	"custom": true, "lexical_sorted_slice": true, "array_rules": true}

func nontrivial(n *serixgen.Node) (bool, []string) {
	fs, d := featureList(n)
	k := 0
	for _, f := range fs {
		if interesting[f] {
			k++
		}
	}
	return d >= 2 && k >= 2, fs
}

func labelsOf(m map[string]bool, prefix string) []string {
	out := []string{}
	for k := range m {
		out = append(out, prefix+k)
	}
	sort.Strings(out)
	return out
}

func violation(rt *rapid.T, check string, c *serixgen.Case, v reflect.Value, extra map[string]any, format string, a ...any) {
	msg := fmt.Sprintf(format, a...)
	p := map[string]any{"schema": c.Root.String(), "value": serixgen.Render(c.Root, v), "problem": msg}
	for k, x := range extra {
		p[k] = x
	}
	stats.Violation(check, p)
	rt.Fatalf("%s: %s\nschema: %s\nvalue: %s\nextra: %v", check, msg, c.Root.String(), serixgen.Render(c.Root, v), extra)
}

// shuffleMaps rebuilds every map inside v with a different insertion order (forces another Go map layout).
func shuffleMaps(n *serixgen.Node, v reflect.Value) reflect.Value {
	out := reflect.New(v.Type()).Elem()
	out.Set(v)
	var walk func(n *serixgen.Node, v reflect.Value)
	walk = func(n *serixgen.Node, v reflect.Value) {
		switch n.Kind {
		case serixgen.KMap:
			if v.IsNil() {
				return
			}
			keys := v.MapKeys()
			m := reflect.MakeMapWithSize(v.Type(), len(keys)*2+8)
			for i := len(keys) - 1; i >= 0; i-- {
				val := reflect.New(n.Elem.T).Elem()
				val.Set(v.MapIndex(keys[i]))
				walk(n.Elem, val)
				m.SetMapIndex(keys[i], val)
			}
			v.Set(m)
		case serixgen.KSlice:
			if v.IsNil() {
				return
			}
			cp := reflect.MakeSlice(v.Type(), v.Len(), v.Len())
			reflect.Copy(cp, v)
			for i := 0; i < cp.Len(); i++ {
				walk(n.Elem, cp.Index(i))
			}
			v.Set(cp)
		case serixgen.KArray:
			for i := 0; i < v.Len(); i++ {
				walk(n.Elem, v.Index(i))
			}
		case serixgen.KStruct:
			for _, f := range n.Fields {
				fv := v.Field(f.Index)
				if f.Embedded && f.EmbPtr {
					if !fv.IsNil() {
						cp := reflect.New(f.N.Elem.T)
						cp.Elem().Set(fv.Elem())
						walk(f.N.Elem, cp.Elem())
						fv.Set(cp)
					}
					continue
				}
				if (f.N.Kind == serixgen.KPtr || f.N.Kind == serixgen.KIface) && fv.IsNil() {
					continue
				}
				walk(f.N, fv)
			}
		case serixgen.KPtr:
			if v.IsNil() {
				return
			}
			cp := reflect.New(n.Elem.T)
			cp.Elem().Set(v.Elem())
			walk(n.Elem, cp.Elem())
			v.Set(cp)
		case serixgen.KIface:
			if v.IsNil() {
				return
			}
			dyn := v.Elem()
			for _, im := range n.Impls {
				if im.T == dyn.Type() {
					cp := reflect.New(im.T).Elem()
					cp.Set(dyn)
					walk(im, cp)
					v.Set(cp)
				}
			}
		}
	}
	walk(n, out)
	return out
}

const ruleBinary = "rapid draws a type shape (reflect-built nested structs with serix tags over a pool of named leaves, interfaces with uint8/uint32 codes, custom (de)serializers, embedded/inlined structs, slices/arrays/maps with all prefix widths and array rules) registered on a fresh serix.API, then a value (3/4 constructed to satisfy all rules, 1/4 free); each case runs validation off and on; Encode of the struct passed by value must equal Encode of a pointer to it. Distinct by (shape, value, mode); non-trivial = shape depth >= 2 and >= 2 feature classes of {optional, interface, map, array of non-bytes, inlined/embedded, custom, lexically sorted slice, array rules}"

func TestBinaryRoundTrip(t *testing.T) {
	const check = "binary_roundtrip"
	stats.Rule(check, ruleBinary)
	rapid.Check(t, func(rt *rapid.T) {
		c := serixgen.NewCase(rt, cfg())
		mode := serixgen.ValidMode
		if rapid.IntRange(0, 3).Draw(rt, "valueMode") == 0 {
			mode = serixgen.FreeMode
		}
		v, vl := serixgen.GenValue(rt, c.Root, mode, cfg())
		nt, feats := nontrivial(c.Root)
		labels := append(labelsOf(vl, "value:"), "mode:"+map[serixgen.ValueMode]string{serixgen.ValidMode: "valid", serixgen.FreeMode: "free"}[mode])
		for _, f := range feats {
			labels = append(labels, "shape:"+f)
		}
		accepted := 0
		for _, validate := range []bool{false, true} {
			ref := serixgen.RefEncode(c.Root, v, validate)
			enc := c.Encode(v, validate)
			ex := map[string]any{"validate": validate}
			// C01 speaks about values Encode accepts. Whether Encode accepts exactly the right values (and emits the
			// documented bytes) is C03's differential check; here a refusal or an Encode panic only gets counted.
			if enc.Panic != nil {
				labels = append(labels, "encode_panicked")
				continue
			}
			if enc.Err != nil {
				labels = append(labels, fmt.Sprintf("encode_refused(validate=%v)", validate))
				if ref.Reject == "" && !vl["unsatisfiable_rules"] {
					labels = append(labels, "encode_refused_but_reference_accepts")
				}
				continue
			}
			if ref.Reject != "" {
				labels = append(labels, "encode_accepted_but_reference_rejects")
			}
			accepted++
			ex["bytes"] = hex.EncodeToString(enc.Bytes)
			// decode with the same mode
			dec := c.Decode(enc.Bytes, validate)
			if dec.Panic != nil {
				violation(rt, check, c, v, ex, "Decode panicked: %v", dec.Panic)
			}
			if dec.Err != nil {
				violation(rt, check, c, v, ex, "Decode of Encode's output failed: %v", dec.Err)
			}
			if dec.N != len(enc.Bytes) {
				violation(rt, check, c, v, ex, "Decode consumed %d of %d bytes", dec.N, len(enc.Bytes))
			}
			if d := serixgen.Equal(c.Root, v, dec.Value); d != "" {
				violation(rt, check, c, v, ex, "decoded value differs: %s", d)
			}
			// bytes encoded without validation decode with validation whenever the value satisfies every documented rule
			// (the reference encoder decides that); the converse direction is checked below
			if !validate && serixgen.RefEncode(c.Root, v, true).Reject == "" {
				decV := c.Decode(enc.Bytes, true)
				if decV.Panic != nil || decV.Err != nil || decV.N != len(enc.Bytes) || serixgen.Equal(c.Root, v, decV.Value) != "" {
					violation(rt, check, c, v, ex, "bytes of a rule-abiding value encoded without validation do not round-trip through Decode with validation: panic=%v err=%v n=%d", decV.Panic, decV.Err, decV.N)
				}
				labels = append(labels, "cross_mode_decode")
			}
			if validate {
				dec2 := c.Decode(enc.Bytes, false)
				if dec2.Panic != nil || dec2.Err != nil || dec2.N != len(enc.Bytes) || serixgen.Equal(c.Root, v, dec2.Value) != "" {
					violation(rt, check, c, v, ex, "bytes encoded with validation do not round-trip through Decode without validation: panic=%v err=%v n=%d", dec2.Panic, dec2.Err, dec2.N)
				}
			}
			// consumed-count exactness with trailing junk
			junk := rapid.SliceOfN(rapid.Byte(), 1, 9).Draw(rt, "junk")
			dec3 := c.Decode(append(append([]byte{}, enc.Bytes...), junk...), validate)
			if dec3.Panic != nil || dec3.Err != nil {
				violation(rt, check, c, v, ex, "Decode with trailing bytes failed: panic=%v err=%v", dec3.Panic, dec3.Err)
			}
			if dec3.N != len(enc.Bytes) {
				violation(rt, check, c, v, ex, "Decode with trailing bytes consumed %d, encoding has %d", dec3.N, len(enc.Bytes))
			}
			if d := serixgen.Equal(c.Root, v, dec3.Value); d != "" {
				violation(rt, check, c, v, ex, "decoded value (trailing bytes present) differs: %s", d)
			}
			// determinism: twice, and with every map rebuilt in another insertion order
			enc2 := c.Encode(v, validate)
			if enc2.Err != nil || !bytes.Equal(enc2.Bytes, enc.Bytes) {
				violation(rt, check, c, v, ex, "second Encode differs: %x (err %v)", enc2.Bytes, enc2.Err)
			}
			// the same value handed over as a struct instead of a pointer to it (everything below is then not addressable)
			encV := c.EncodeByValue(v, validate)
			if encV.Panic != nil || encV.Err != nil || !bytes.Equal(encV.Bytes, enc.Bytes) {
				violation(rt, check, c, v, ex, "Encode of the struct passed by value differs from Encode of a pointer to it: %x (err %v, panic %v)", encV.Bytes, encV.Err, encV.Panic)
			}
			sh := shuffleMaps(c.Root, v)
			enc3 := c.Encode(sh, validate)
			if enc3.Err != nil || !bytes.Equal(enc3.Bytes, enc.Bytes) {
				violation(rt, check, c, v, ex, "Encode after rebuilding maps in another order differs: %x (err %v)", enc3.Bytes, enc3.Err)
			}
		}
		if accepted == 0 {
			labels = append(labels, "never_accepted")
		}
		key := c.Root.String() + "|" + serixgen.Render(c.Root, v)
		stats.Case(check, nt && accepted > 0, key, func() any {
			return map[string]any{"schema": c.Root.String(), "value": serixgen.Render(c.Root, v), "features": feats}
		}, labels...)
	})
}

package c17

// Condition waits of syncutils.Counter and syncutils.Stack.
//
// The controller is the only mutator, so the value timeline is exact: timeline[k] is the value after
// k mutations. A waiter launched after k completed mutations that is observed to have returned when
// r mutations had been ISSUED can only have seen timeline[k..r]:
//   only-if: one of these values must satisfy the waiter's condition;
//   if:      whenever the controller stops mutating while the value satisfies the condition of an
//            outstanding waiter (drawn "sync" points and the end of the script), the waiter must
//            return within ctl.HangTimeout.

import (
	"fmt"
	"sort"
	"strings"
	"sync/atomic"
	"testing"
	"time"

	"github.com/iotaledger/hive.go/runtime/syncutils"
	"pgregory.net/rapid"
	"verifharness/internal/ctl"
	"verifharness/internal/stats"
)

type vop struct {
	Name  string
	apply func()
	After int // model value after the mutation
	Sync  bool
}

type vwaiter struct {
	Name  string
	cond  func(v int) bool
	wait  func()
	Start int // launched after Start completed mutations
}

type vresult struct {
	Kind, Violation string
	Trace           []string
	HadToWait       int // waiters launched while their condition was false that returned later
	Goroutines      string
}

type vevent struct{ w, ret int }

// runValueWaits executes ops with the waiters; finish yields the closing mutations that satisfy all
// outstanding waiters (called repeatedly until no waiter is outstanding).
func runValueWaits(v0 int, ops []vop, waiters []vwaiter, finish func(cur int, outstanding []int) []vop) (res vresult) {
	timeline := []int{v0}
	var issued atomic.Int64
	events := make(chan vevent, len(waiters))
	returned := make([]bool, len(waiters))
	launchedAt := make([]int, len(waiters))
	launchedFalse := make([]bool, len(waiters))
	trace := func(f string, a ...any) {
		if len(res.Trace) < 300 {
			res.Trace = append(res.Trace, fmt.Sprintf(f, a...))
		}
	}
	fail := func(kind, f string, a ...any) {
		if res.Kind == "" {
			res.Kind, res.Violation = kind, fmt.Sprintf(f, a...)
			trace("VIOLATION %s: %s", kind, res.Violation)
			if kind == "not_woken" {
				res.Goroutines = ctl.Dump()
			}
		}
	}
	handle := func(ev vevent) {
		w := waiters[ev.w]
		returned[ev.w] = true
		lo, hi := launchedAt[ev.w], ev.ret
		if hi >= len(timeline) {
			hi = len(timeline) - 1
		}
		ok := false
		for k := lo; k <= hi; k++ {
			if w.cond(timeline[k]) {
				ok = true
			}
		}
		trace("waiter %d %s returned (mutations issued: %d)", ev.w, w.Name, ev.ret)
		if !ok {
			fail("returned_without_condition", "waiter %d %s (called after %d mutations) returned when %d mutations had been issued, but the condition held for none of the values %v it can have seen", ev.w, w.Name, lo, ev.ret, timeline[lo:hi+1])
			return
		}
		if launchedFalse[ev.w] {
			res.HadToWait++
		}
	}
	waitEvent := func(d time.Duration) bool {
		ev, ok := patientRecv(events, d)
		if ok {
			handle(ev)
		}
		return ok
	}
	outstanding := func(satisfiedBy *int) []int {
		var out []int
		for i := range waiters {
			if launchedAt[i] >= 0 && !returned[i] && (satisfiedBy == nil || waiters[i].cond(*satisfiedBy)) {
				out = append(out, i)
			}
		}
		return out
	}
	syncPoint := func() {
		cur := timeline[len(timeline)-1]
		for res.Kind == "" {
			o := outstanding(&cur)
			if len(o) == 0 {
				return
			}
			if !waitEvent(ctl.HangTimeout) {
				var names []string
				for _, i := range o {
					names = append(names, fmt.Sprintf("%d %s", i, waiters[i].Name))
				}
				fail("not_woken", "value is %d and no mutation is in flight, but waiter(s) %s did not return within %s (timeline %v)", cur, strings.Join(names, ", "), ctl.HangTimeout, timeline)
			}
		}
	}
	for i := range launchedAt {
		launchedAt[i] = -1
	}
	gids := make([]atomic.Int64, len(waiters))
	launch := func(k int) {
		for i, w := range waiters {
			if w.Start != k || launchedAt[i] >= 0 {
				continue
			}
			launchedAt[i] = k
			launchedFalse[i] = !w.cond(timeline[k])
			trace("launch waiter %d %s (value %d)", i, w.Name, timeline[k])
			go func(i int, w vwaiter) {
				gids[i].Store(curGoroutineID())
				w.wait()
				events <- vevent{i, int(issued.Load())}
			}(i, w)
			if launchedFalse[i] {
				// let the waiter really go to sleep before the next mutation (best effort, no verdict)
				waitParked(gids[i].Load, func() bool { return false }, 2*time.Millisecond)
			}
		}
	}
	apply := func(o vop) {
		issued.Add(1)
		timeline = append(timeline, o.After)
		trace("%s -> %d", o.Name, o.After)
		o.apply()
	}
	for k, o := range ops {
		launch(k)
		if res.Kind != "" {
			return
		}
		apply(o)
		// drain events that are already there (keeps the trace ordered; no waiting)
		for drained := false; !drained && res.Kind == ""; {
			select {
			case ev := <-events:
				handle(ev)
			default:
				drained = true
			}
		}
		if o.Sync {
			syncPoint()
		}
	}
	launch(len(ops))
	syncPoint()
	for res.Kind == "" {
		o := outstanding(nil)
		if len(o) == 0 {
			break
		}
		for _, fo := range finish(timeline[len(timeline)-1], o) {
			apply(fo)
		}
		syncPoint()
	}
	return res
}

func vpayload(obj string, v0 int, ops []vop, waiters []vwaiter, res vresult) map[string]any {
	var os, ws []string
	for _, o := range ops {
		s := o.Name
		if o.Sync {
			s += " [sync]"
		}
		os = append(os, s)
	}
	for _, w := range waiters {
		ws = append(ws, fmt.Sprintf("%s launched after %d mutations", w.Name, w.Start))
	}
	m := map[string]any{"object": obj, "initial": v0, "mutations": os, "waiters": ws, "kind": res.Kind, "observed": res.Violation, "trace": res.Trace}
	if res.Goroutines != "" {
		m["goroutines_at_hang"] = res.Goroutines
	}
	return m
}

func vkey(v0 int, ops []vop, waiters []vwaiter) string {
	var b strings.Builder
	fmt.Fprintf(&b, "%d|", v0)
	for _, o := range ops {
		fmt.Fprintf(&b, "%s,%v;", o.Name, o.Sync)
	}
	for _, w := range waiters {
		fmt.Fprintf(&b, "%s@%d;", w.Name, w.Start)
	}
	return b.String()
}

func TestCounterWaits(t *testing.T) {
	const check = "counter_waits"
	stats.Rule(check, "rapid draws an initial value -2..4, 1-10 mutations (Set/Update/Increase/Decrease keeping the value in -2..5 - the counter may go negative, as the package's own TestCounter_WaitIsBelowZero does; each optionally followed by a sync point) and 1-4 waiters (WaitIsZero, WaitIsBelow(1..5), WaitIsAbove(0..4)) launched at drawn positions; the controller is the only mutator; only-if and if oracles as described in waits_test.go; closing mutations satisfy every outstanding waiter; non-trivial = a waiter was launched while its condition was false and returned later; distinct by (initial, mutations, waiters)")
	rapid.Check(t, func(rt *rapid.T) {
		c := syncutils.NewCounter()
		v0 := rapid.IntRange(-2, 4).Draw(rt, "v0")
		c.Set(v0)
		v := v0
		var ops []vop
		for i, n := 0, rapid.IntRange(1, 10).Draw(rt, "nops"); i < n; i++ {
			sync := rapid.IntRange(0, 2).Draw(rt, "sync") == 0
			switch rapid.IntRange(0, 3).Draw(rt, "op") {
			case 0:
				nv := rapid.IntRange(-2, 5).Draw(rt, "set")
				v = nv
				ops = append(ops, vop{fmt.Sprintf("Set(%d)", nv), func() { c.Set(nv) }, v, sync})
			case 1:
				d := rapid.IntRange(max(-2, -2-v), min(2, 5-v)).Draw(rt, "delta")
				v += d
				ops = append(ops, vop{fmt.Sprintf("Update(%d)", d), func() { c.Update(d) }, v, sync})
			case 2:
				if v < 5 {
					v++
					ops = append(ops, vop{"Increase()", func() { c.Increase() }, v, sync})
				} else {
					v--
					ops = append(ops, vop{"Decrease()", func() { c.Decrease() }, v, sync})
				}
			default:
				if v > -2 {
					v--
					ops = append(ops, vop{"Decrease()", func() { c.Decrease() }, v, sync})
				} else {
					v++
					ops = append(ops, vop{"Increase()", func() { c.Increase() }, v, sync})
				}
			}
		}
		var waiters []vwaiter
		for i, n := 0, rapid.IntRange(1, 4).Draw(rt, "nwaiters"); i < n; i++ {
			start := rapid.IntRange(0, len(ops)).Draw(rt, "start")
			switch rapid.IntRange(0, 2).Draw(rt, "wkind") {
			case 0:
				waiters = append(waiters, vwaiter{"WaitIsZero()", func(v int) bool { return v < 1 }, c.WaitIsZero, start})
			case 1:
				th := rapid.IntRange(1, 5).Draw(rt, "below")
				waiters = append(waiters, vwaiter{fmt.Sprintf("WaitIsBelow(%d)", th), func(v int) bool { return v < th }, func() { c.WaitIsBelow(th) }, start})
			default:
				th := rapid.IntRange(0, 4).Draw(rt, "above")
				waiters = append(waiters, vwaiter{fmt.Sprintf("WaitIsAbove(%d)", th), func(v int) bool { return v > th }, func() { c.WaitIsAbove(th) }, start})
			}
		}
		res := runValueWaits(v0, ops, waiters, func(cur int, outstanding []int) []vop {
			// all below/zero waiters are satisfied by 0, all above waiters by 5
			for _, i := range outstanding {
				if waiters[i].cond(0) {
					return []vop{{"Set(0) [closing]", func() { c.Set(0) }, 0, true}}
				}
			}
			return []vop{{"Set(5) [closing]", func() { c.Set(5) }, 5, true}}
		})
		labels := []string{}
		for _, w := range waiters {
			labels = append(labels, "waiter:"+strings.SplitN(w.Name, "(", 2)[0])
		}
		if res.HadToWait > 0 {
			labels = append(labels, "had_to_wait")
		}
		stats.Case(check, res.HadToWait > 0, vkey(v0, ops, waiters), func() any { return vpayload("Counter", v0, ops, waiters, vresult{}) }, labels...)
		if res.Kind != "" {
			stats.Violation(check, vpayload("Counter", v0, ops, waiters, res))
			rt.Fatalf("%s: %s\ntrace:\n  %s", res.Kind, res.Violation, joinLines(res.Trace))
		}
	})
}

func TestStackSizeWaits(t *testing.T) {
	const check = "stack_size_waits"
	stats.Rule(check, "rapid draws 0-3 initial elements, 1-10 mutations (Push/Pop, size kept in 0..4, Pop on empty included; optional sync points) and 1-4 waiters (WaitIsEmpty, WaitSizeIsBelow(1..4), WaitSizeIsAbove(0..3)) launched at drawn positions; the controller is the only mutator; same only-if / if oracles as counter_waits; non-trivial = a waiter was launched while its condition was false and returned later")
	rapid.Check(t, func(rt *rapid.T) {
		s := syncutils.NewStack[int]()
		v0 := rapid.IntRange(0, 3).Draw(rt, "v0")
		for i := 0; i < v0; i++ {
			s.Push(-i)
		}
		v := v0
		var ops []vop
		for i, n := 0, rapid.IntRange(1, 10).Draw(rt, "nops"); i < n; i++ {
			sync := rapid.IntRange(0, 2).Draw(rt, "sync") == 0
			if push := rapid.Bool().Draw(rt, "push"); push && v < 4 {
				v++
				x := i
				ops = append(ops, vop{"Push()", func() { s.Push(x) }, v, sync})
			} else {
				if v > 0 {
					v--
				}
				ops = append(ops, vop{"Pop()", func() { s.Pop() }, v, sync})
			}
		}
		var waiters []vwaiter
		for i, n := 0, rapid.IntRange(1, 4).Draw(rt, "nwaiters"); i < n; i++ {
			start := rapid.IntRange(0, len(ops)).Draw(rt, "start")
			switch rapid.IntRange(0, 2).Draw(rt, "wkind") {
			case 0:
				waiters = append(waiters, vwaiter{"WaitIsEmpty()", func(v int) bool { return v < 1 }, s.WaitIsEmpty, start})
			case 1:
				th := rapid.IntRange(1, 4).Draw(rt, "below")
				waiters = append(waiters, vwaiter{fmt.Sprintf("WaitSizeIsBelow(%d)", th), func(v int) bool { return v < th }, func() { s.WaitSizeIsBelow(th) }, start})
			default:
				th := rapid.IntRange(0, 3).Draw(rt, "above")
				waiters = append(waiters, vwaiter{fmt.Sprintf("WaitSizeIsAbove(%d)", th), func(v int) bool { return v > th }, func() { s.WaitSizeIsAbove(th) }, start})
			}
		}
		res := runValueWaits(v0, ops, waiters, func(cur int, outstanding []int) []vop {
			for _, i := range outstanding {
				if waiters[i].cond(0) { // a below/empty waiter: pop one element (re-asked until satisfied)
					if cur > 0 {
						return []vop{{"Pop() [closing]", func() { s.Pop() }, cur - 1, cur-1 == 0}}
					}
				}
			}
			return []vop{{"Push() [closing]", func() { s.Push(99) }, cur + 1, cur+1 >= 4}}
		})
		labels := []string{}
		for _, w := range waiters {
			labels = append(labels, "waiter:"+strings.SplitN(w.Name, "(", 2)[0])
		}
		if res.HadToWait > 0 {
			labels = append(labels, "had_to_wait")
		}
		stats.Case(check, res.HadToWait > 0, vkey(v0, ops, waiters), func() any { return vpayload("Stack", v0, ops, waiters, vresult{}) }, labels...)
		if res.Kind != "" {
			stats.Violation(check, vpayload("Stack", v0, ops, waiters, res))
			rt.Fatalf("%s: %s\ntrace:\n  %s", res.Kind, res.Violation, joinLines(res.Trace))
		}
	})
}

// ---------------------------------------------------------------------------------------------
// PopOrWait

type powCase struct {
	Ops       []string // "push" | "pop" | "sync"
	Waiters   []int    // launch position (before op k) of each PopOrWait waiter
	Bystander int      // number of WaitSizeIsAbove(6) waiters sharing the "element added" condition variable
}

type powEvent struct {
	w    int
	elem int
	ok   bool
	shut bool // shutdown had been issued when the return was observed
}

func runPopOrWait(c powCase) (kind, violation string, trace []string, waited int) {
	s := syncutils.NewStack[int]()
	var running atomic.Bool
	running.Store(true)
	var shutdownIssued atomic.Bool
	events := make(chan powEvent, len(c.Waiters))
	byDone := make(chan struct{}, c.Bystander)
	tr := func(f string, a ...any) { trace = append(trace, fmt.Sprintf(f, a...)) }
	fail := func(k, f string, a ...any) {
		if kind == "" {
			kind, violation = k, fmt.Sprintf(f, a...)
			tr("VIOLATION %s: %s", k, violation)
		}
	}
	for i := 0; i < c.Bystander; i++ {
		go func() { s.WaitSizeIsAbove(6); byDone <- struct{}{} }()
	}
	pushed := map[int]bool{}
	delivered := map[int]string{}
	outstanding := 0
	take := func(elem int, who string) {
		if !pushed[elem] {
			fail("phantom_element", "%s obtained element %d that was never pushed", who, elem)
		} else if prev, dup := delivered[elem]; dup {
			fail("delivered_twice", "element %d delivered to %s and to %s", elem, prev, who)
		}
		delivered[elem] = who
	}
	handle := func(ev powEvent) {
		outstanding--
		tr("waiter %d returned (%d, %v)", ev.w, ev.elem, ev.ok)
		if ev.ok {
			take(ev.elem, fmt.Sprintf("PopOrWait waiter %d", ev.w))
			waited++
		} else if !ev.shut {
			fail("returned_without_condition", "PopOrWait waiter %d returned without an element although its wait condition was still true (shutdown not issued yet)", ev.w)
		}
	}
	waitEvent := func() bool {
		ev, ok := patientRecv(events, ctl.HangTimeout)
		if ok {
			handle(ev)
		}
		return ok
	}
	quiesce := func() {
		for kind == "" && outstanding > 0 && s.Size() > 0 {
			if !waitEvent() {
				fail("not_woken", "stack holds %d element(s), no mutation in flight, but %d PopOrWait waiter(s) did not return within %s", s.Size(), outstanding, ctl.HangTimeout)
			}
		}
	}
	launch := func(k int) {
		for w, at := range c.Waiters {
			if at != k {
				continue
			}
			outstanding++
			tr("launch PopOrWait waiter %d", w)
			var gid atomic.Int64
			go func(w int) {
				gid.Store(curGoroutineID())
				e, ok := s.PopOrWait(running.Load)
				events <- powEvent{w, e, ok, shutdownIssued.Load()}
			}(w)
			// best effort: let it reach its wait (or return) before the next step
			waitParked(gid.Load, func() bool { return len(events) > 0 }, 2*time.Millisecond)
		}
	}
	next := 0
	for k, o := range c.Ops {
		launch(k)
		switch o {
		case "push":
			next++
			pushed[next] = true
			tr("Push(%d)", next)
			s.Push(next)
		case "pop":
			e, ok := s.Pop()
			tr("Pop() = (%d, %v)", e, ok)
			if ok {
				take(e, "the controller's Pop")
			}
		case "sync":
			quiesce()
		case "signal":
			// a SignalShutdown while the wait condition still holds (e.g. the signal of an earlier run of a restartable
			// owner): it may wake the waiters up, but none of them - nor any later one - may return empty-handed
			tr("SignalShutdown() with the wait condition still true")
			if !withinHang(s.SignalShutdown) {
				fail("not_woken", "SignalShutdown did not return within %s", ctl.HangTimeout)
			}
		}
		if kind != "" {
			return
		}
	}
	launch(len(c.Ops))
	quiesce()
	// shutdown: every outstanding waiter must return (with an element if one is left, else without)
	shutdownIssued.Store(true)
	running.Store(false)
	tr("running=false; SignalShutdown()")
	if !withinHang(s.SignalShutdown) {
		fail("not_woken", "SignalShutdown did not return within %s", ctl.HangTimeout)
	}
	for kind == "" && outstanding > 0 {
		if !waitEvent() {
			fail("not_woken", "wait condition is false and SignalShutdown returned, but %d PopOrWait waiter(s) did not return within %s", outstanding, ctl.HangTimeout)
		}
	}
	if kind != "" {
		return
	}
	for {
		e, ok := s.Pop()
		if !ok {
			break
		}
		take(e, "the final drain")
	}
	if kind == "" && len(delivered) != len(pushed) {
		var lost []int
		for e := range pushed {
			if _, ok := delivered[e]; !ok {
				lost = append(lost, e)
			}
		}
		sort.Ints(lost)
		fail("element_lost", "pushed elements %v were never delivered", lost)
	}
	// bystanders share the condition variable; they must be woken once their own condition holds
	for i := 0; i < 7 && c.Bystander > 0; i++ {
		s.Push(1000 + i)
	}
	for i := 0; i < c.Bystander && kind == ""; i++ {
		if !waitHang(byDone) {
			fail("not_woken", "size is 7 but a WaitSizeIsAbove(6) waiter did not return within %s", ctl.HangTimeout)
		}
	}
	return
}

func TestStackPopOrWait(t *testing.T) {
	const check = "stack_pop_or_wait"
	stats.Rule(check, "rapid draws 1-4 PopOrWait(running) waiters launched at drawn positions of a 0-8 step controller program (push / pop / sync / SignalShutdown while the wait condition is still true) plus 0-2 WaitSizeIsAbove(6) bystanders on the same condition variable; oracles: an element is delivered exactly once and only if pushed; a waiter returns empty-handed only after the wait condition was set false; at sync points and at the end (running=false; SignalShutdown) no waiter may stay blocked while an element is available resp. the condition is false (ctl.HangTimeout); all pushed elements are accounted for; non-trivial = a waiter obtained an element or >=2 waiters; distinct by case")
	rapid.Check(t, func(rt *rapid.T) {
		var c powCase
		c.Ops = rapid.SliceOfN(rapid.SampledFrom([]string{"push", "push", "pop", "sync", "signal"}), 0, 8).Draw(rt, "ops")
		nw := rapid.IntRange(1, 4).Draw(rt, "waiters")
		for i := 0; i < nw; i++ {
			c.Waiters = append(c.Waiters, rapid.IntRange(0, len(c.Ops)).Draw(rt, "at"))
		}
		c.Bystander = rapid.IntRange(0, 2).Draw(rt, "bystanders")
		kind, viol, trace, waited := runPopOrWait(c)
		labels := []string{fmt.Sprintf("waiters:%d", nw), fmt.Sprintf("bystanders:%d", c.Bystander)}
		if waited > 0 {
			labels = append(labels, "waiter_got_element")
		}
		stats.Case(check, waited > 0 || nw >= 2, fmt.Sprint(c), func() any { return c }, labels...)
		if kind != "" {
			stats.Violation(check, map[string]any{"case": c, "kind": kind, "observed": viol, "trace": trace})
			rt.Fatalf("%s: %s\ncase: %+v\ntrace:\n  %s", kind, viol, c, joinLines(trace))
		}
	})
}

// ---------------------------------------------------------------------------------------------
// SignalShutdown racing with a PopOrWait that has just evaluated its wait condition (D21).
//
// The wait condition is a callback of the caller and is evaluated under the stack's mutex, so the
// harness owns exactly the window the property names: the condition of one waiter reads "true",
// then (still inside the callback) lets the controller flip the flag and call SignalShutdown, and
// only then returns. The callback waits for SignalShutdown to RETURN or for a 2 ms grace period
// (an implementation that synchronises SignalShutdown with the mutex cannot return before the waiter
// sleeps; the grace period decides nothing). Afterwards the condition is false and the shutdown was
// signalled, so every waiter must return.

type windowCase struct {
	Sleepers int  // waiters already asleep in PopOrWait when the parked one evaluates its condition
	PushLate bool // push one element after the shutdown (must not be needed to wake anybody)
}

func runShutdownWindow(c windowCase) (violation string) {
	s := syncutils.NewStack[int]()
	var running atomic.Bool
	running.Store(true)
	done := make(chan bool, c.Sleepers+1)
	for i := 0; i < c.Sleepers; i++ {
		var gid atomic.Int64
		go func() {
			gid.Store(curGoroutineID())
			_, ok := s.PopOrWait(running.Load)
			done <- ok
		}()
		waitParked(gid.Load, func() bool { return false }, 2*time.Millisecond)
	}
	inWindow := make(chan struct{})
	release := make(chan struct{})
	var first atomic.Bool
	go func() {
		_, ok := s.PopOrWait(func() bool {
			r := running.Load()
			if r && first.CompareAndSwap(false, true) {
				close(inWindow)
				<-release
			}
			return r
		})
		done <- ok
	}()
	if !waitHang(inWindow) {
		return "harness: the parked waiter never evaluated its wait condition"
	}
	running.Store(false)
	sigDone := make(chan struct{})
	go func() { s.SignalShutdown(); close(sigDone) }()
	ctl.WaitChan(sigDone, 2*time.Millisecond)
	close(release)
	if !waitHang(sigDone) {
		return fmt.Sprintf("SignalShutdown did not return within %s", ctl.HangTimeout)
	}
	for i := 0; i < c.Sleepers+1; i++ {
		ok, returned := patientRecv(done, ctl.HangTimeout)
		if !returned {
			return fmt.Sprintf("wait condition is false and SignalShutdown has returned, but %d of %d PopOrWait waiter(s) did not return within %s (the waiter evaluated its condition just before SignalShutdown and then went to sleep: missed wake-up)", c.Sleepers+1-i, c.Sleepers+1, ctl.HangTimeout)
		}
		if ok {
			return "PopOrWait returned an element from an empty stack"
		}
	}
	if c.PushLate {
		s.Push(1)
		if e, ok := s.Pop(); !ok || e != 1 {
			return "element pushed after the shutdown is not in the stack"
		}
	}
	return ""
}

func TestStackShutdownWindow(t *testing.T) {
	const check = "stack_shutdown_window"
	stats.Rule(check, "PopOrWait whose caller-supplied wait condition (evaluated under the stack mutex) reads true and then lets running=false; SignalShutdown() happen before it returns, with 0-3 further waiters already asleep; every waiter must return (ctl.HangTimeout); owned schedule, every case non-trivial; distinct by (sleepers, push-late)")
	rapid.Check(t, func(rt *rapid.T) {
		c := windowCase{Sleepers: rapid.IntRange(0, 3).Draw(rt, "sleepers"), PushLate: rapid.Bool().Draw(rt, "pushLate")}
		v := runShutdownWindow(c)
		stats.Case(check, true, fmt.Sprint(c), func() any { return c }, fmt.Sprintf("sleepers:%d", c.Sleepers))
		if v != "" {
			stats.Violation(check, map[string]any{"case": c, "observed": v})
			rt.Fatalf("%s (case %+v)", v, c)
		}
	})
}

// TestStackShutdownRace is the free-running version: no owned schedule, only repetition.
func TestStackShutdownRace(t *testing.T) {
	const check = "stack_shutdown_race"
	stats.Rule(check, "free-running trials: one goroutine in PopOrWait(running), the other does running=false; SignalShutdown() after 0-3 yields; the waiter must return (ctl.HangTimeout); the interleaving is the scheduler's; counted as non-trivial: all (each trial races)")
	trials := stats.Scale(20000, 50000) // per process; the thorough tier runs 16 processes
	for i := 0; i < trials; i++ {
		s := syncutils.NewStack[int]()
		var running atomic.Bool
		running.Store(true)
		done := make(chan struct{})
		go func() {
			s.PopOrWait(running.Load)
			close(done)
		}()
		for y := 0; y < i%4; y++ {
			ctl.Settle(0)
		}
		running.Store(false)
		s.SignalShutdown()
		if !waitHang(done) {
			stats.Violation(check, map[string]any{"trial": i, "yields": i % 4, "observed": "PopOrWait did not return after running=false; SignalShutdown()"})
			t.Fatalf("trial %d: PopOrWait(running) did not return within %s after running=false; SignalShutdown()", i, ctl.HangTimeout)
		}
	}
	stats.Bulk(check, int64(trials), 4, false, map[string]any{"trials": trials})
}

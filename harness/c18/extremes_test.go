package c18

import (
	"fmt"
	"strings"
	"sync"
	"testing"
	"time"

	"github.com/iotaledger/hive.go/runtime/timed"
	"pgregory.net/rapid"
	"verifharness/internal/ctl"
	"verifharness/internal/stats"
)

// parkedTimes are scheduled times that are far away but perfectly valid time.Time values: the way callers "park" an
// element. Several of them cannot be expressed as int64 nanoseconds since 1970 (time.Time.UnixNano is undefined
// there) or are further away than the largest time.Duration.
var parkedTimes = []struct {
	name string
	at   func() time.Time
}{
	{"now+1h", func() time.Time { return time.Now().Add(time.Hour) }},
	{"now+100y", func() time.Time { return time.Now().AddDate(100, 0, 0) }},
	{"now+maxDuration", func() time.Time { return time.Now().Add(1<<63 - 1) }},
	{"2262-04-12 (just behind the int64 ns range)", func() time.Time { return time.Date(2262, 4, 12, 0, 0, 0, 0, time.UTC) }},
	{"2400-01-01", func() time.Time { return time.Date(2400, 1, 1, 0, 0, 0, 0, time.UTC) }},
	{"2500-06-01", func() time.Time { return time.Date(2500, 6, 1, 0, 0, 0, 0, time.UTC) }},
	{"3000-01-01", func() time.Time { return time.Date(3000, 1, 1, 0, 0, 0, 0, time.UTC) }},
	{"9999-12-31", func() time.Time { return time.Date(9999, 12, 31, 23, 59, 59, 0, time.UTC) }},
	{"unix 2^34 s", func() time.Time { return time.Unix(1<<34, 0) }},
	{"unix 2^40 s", func() time.Time { return time.Unix(1<<40, 0) }},
	{"wall clock only, now+50y", func() time.Time { return time.Now().Round(0).AddDate(50, 0, 0) }},
}

// TestParkedNeverEarly: "never before its scheduled time" for scheduled times far in the future.
func TestParkedNeverEarly(t *testing.T) {
	const check = "parked_never_early"
	stats.Rule(check, "rapid draws the structure (Queue with one polling consumer / Executor / TaskExecutor, 1..3 workers), 1..3 parked elements whose scheduled time is drawn from {now+1h, now+100y, now+max Duration, 2262-04-12, 2400, 2500, 3000, 9999-12-31, unix 2^34 s, unix 2^40 s, a wall-clock-only time} and 0..3 near elements (1..10 ms) in a drawn order; everything is added, the consumer/workers run for a drawn window of 10..40 ms, then Shutdown(CancelPendingElements) (waiting, under the 20 s watchdog) ends the case. Oracle: no parked element is ever delivered (its time has not come and no ignore-timeouts shutdown was called); near elements are not judged here (a worker that already waits for a parked element legitimately delays them). Distinct by configuration; non-trivial = a parked time outside the int64-nanosecond range or beyond the largest Duration together with >= 1 near element")
	rapid.Check(t, func(rt *rapid.T) {
		kind := rapid.SampledFrom([]string{"queue", "executor", "taskexecutor"}).Draw(rt, "kind")
		workers := rapid.IntRange(1, 3).Draw(rt, "workers")
		nPark := rapid.IntRange(1, 3).Draw(rt, "parked")
		nNear := rapid.IntRange(0, 3).Draw(rt, "near")
		type el struct {
			parked bool
			which  int // index into parkedTimes
			delay  int // ms, near elements
		}
		var els []el
		for i := 0; i < nPark; i++ {
			els = append(els, el{parked: true, which: rapid.IntRange(0, len(parkedTimes)-1).Draw(rt, "which")})
		}
		for i := 0; i < nNear; i++ {
			els = append(els, el{delay: rapid.IntRange(1, 10).Draw(rt, "delay")})
		}
		els = rapid.Permutation(els).Draw(rt, "order")
		window := rapid.IntRange(10, 40).Draw(rt, "windowMs")
		var parts []string
		extreme := false
		for _, e := range els {
			if e.parked {
				parts = append(parts, "park("+parkedTimes[e.which].name+")")
				extreme = extreme || e.which >= 2
			} else {
				parts = append(parts, fmt.Sprintf("near(%dms)", e.delay))
			}
		}
		desc := fmt.Sprintf("%s workers=%d window=%dms %s", kind, workers, window, strings.Join(parts, " "))
		failf := func(format string, a ...any) {
			msg := fmt.Sprintf(format, a...)
			stats.Violation(check, map[string]any{"config": desc, "problem": msg})
			rt.Fatalf("%s: %s", desc, msg)
		}

		var mu sync.Mutex
		delivered := map[int]time.Time{}
		mark := func(i int) {
			st := time.Now()
			mu.Lock()
			if _, dup := delivered[i]; !dup {
				delivered[i] = st
			}
			mu.Unlock()
		}
		sched := make([]time.Time, len(els))
		at := func(i int) time.Time {
			if els[i].parked {
				sched[i] = parkedTimes[els[i].which].at()
			} else {
				sched[i] = time.Now().Add(time.Duration(els[i].delay) * time.Millisecond)
			}
			return sched[i]
		}
		var shutdown func()
		switch kind {
		case "queue":
			q := timed.NewQueue[int]()
			for i := range els {
				q.Add(i+1, at(i))
			}
			done := make(chan struct{})
			go func() {
				defer close(done)
				for v := q.Poll(true); v != 0; v = q.Poll(true) {
					mark(v - 1)
				}
			}()
			shutdown = func() {
				q.Shutdown(timed.CancelPendingElements)
				<-done
			}
		case "executor":
			ex := timed.NewExecutor(workers)
			for i := range els {
				i := i
				ex.ExecuteAt(func() { mark(i) }, at(i))
			}
			shutdown = func() { ex.Shutdown(timed.CancelPendingElements) }
		default:
			ex := timed.NewTaskExecutor[int](workers)
			for i := range els {
				i := i
				ex.ExecuteAt(i, func() { mark(i) }, at(i))
			}
			shutdown = func() { ex.Shutdown(timed.CancelPendingElements) }
		}
		time.Sleep(time.Duration(window) * time.Millisecond)
		if !ctl.WithinHang(shutdown) {
			failf("Shutdown(CancelPendingElements) did not return within %v\n%s", ctl.HangTimeout, ctl.Dump())
		}
		mu.Lock()
		defer mu.Unlock()
		for i, e := range els {
			if st, ok := delivered[i]; ok && e.parked {
				failf("element %d parked until %s (%s) was delivered at %s, before its scheduled time and without an ignore-timeouts shutdown",
					i, sched[i].UTC().Format(time.RFC3339), parkedTimes[e.which].name, st.UTC().Format(time.RFC3339Nano))
			}
		}
		stats.Case(check, extreme && nNear > 0, desc, func() any { return desc }, "kind:"+kind)
	})
}

// TestTaskExecutorReplaceKeepsLast: "scheduling an identifier again replaces its pending task", sequentially, with
// scheduled times drawn from a small grid so that an identifier is frequently re-scheduled for exactly the time of its
// pending task (a shared deadline) with a different callback.
func TestTaskExecutorReplaceKeepsLast(t *testing.T) {
	const check = "taskexecutor_replace_keeps_last"
	stats.Rule(check, "rapid draws 1..3 workers and 2..10 sequential ExecuteAt(id, callback_k, due) calls over identifiers {0,1,2} with due drawn from a grid of three absolute times (base+40/50/60 ms: equal times recur on purpose), all issued at least 5 ms before the earliest due time (cases in which the machine stalled longer are not judged); then a waiting Shutdown() under the 20 s watchdog. Oracle per identifier: exactly one callback ran and it is the one of the LAST call for that identifier, not before that call's due time. Distinct by call list; non-trivial = some identifier was re-scheduled for exactly the time of its pending task")
	rapid.Check(t, func(rt *rapid.T) {
		workers := rapid.IntRange(1, 3).Draw(rt, "workers")
		n := rapid.IntRange(2, 10).Draw(rt, "calls")
		type call struct{ id, slot int }
		calls := make([]call, n)
		var parts []string
		for i := range calls {
			calls[i] = call{rapid.IntRange(0, 2).Draw(rt, "id"), rapid.IntRange(0, 2).Draw(rt, "slot")}
			parts = append(parts, fmt.Sprintf("at(id=%d,T%d)", calls[i].id, calls[i].slot))
		}
		desc := fmt.Sprintf("workers=%d %s", workers, strings.Join(parts, " "))
		failf := func(format string, a ...any) {
			msg := fmt.Sprintf(format, a...)
			stats.Violation(check, map[string]any{"config": desc, "problem": msg})
			rt.Fatalf("%s: %s", desc, msg)
		}
		base := time.Now()
		grid := []time.Time{base.Add(40 * time.Millisecond), base.Add(50 * time.Millisecond), base.Add(60 * time.Millisecond)}
		var mu sync.Mutex
		ran := map[int]time.Time{} // call index -> start stamp
		dups := 0
		ex := timed.NewTaskExecutor[int](workers)
		last := map[int]int{}
		sameTime := false
		for k, c := range calls {
			k := k
			if p, ok := last[c.id]; ok && calls[p].slot == c.slot {
				sameTime = true
			}
			ex.ExecuteAt(c.id, func() {
				st := time.Now()
				mu.Lock()
				if _, dup := ran[k]; dup {
					dups++
				}
				ran[k] = st
				mu.Unlock()
			}, grid[c.slot])
			last[c.id] = k
		}
		if grid[0].Sub(time.Now()) < 5*time.Millisecond {
			ex.Shutdown(timed.CancelPendingElements)
			stats.Case(check, false, "", nil, "indefinite_timing_not_judged")
			return
		}
		if !ctl.WithinHang(func() { ex.Shutdown() }) {
			failf("waiting Shutdown did not return within %v after the due times\n%s", ctl.HangTimeout, ctl.Dump())
		}
		mu.Lock()
		defer mu.Unlock()
		if dups > 0 {
			failf("a callback ran more than once")
		}
		for k, c := range calls {
			st, did := ran[k]
			switch {
			case last[c.id] == k && !did:
				failf("call %d (the last one for identifier %d) never ran: a re-scheduled identifier must run its newest task", k, c.id)
			case last[c.id] != k && did:
				failf("call %d for identifier %d ran although call %d replaced it while it was pending", k, c.id, last[c.id])
			case did && st.Before(grid[c.slot]):
				failf("call %d ran %.3f ms before its scheduled time", k, msOf(grid[c.slot].Sub(st)))
			}
		}
		stats.Case(check, sameTime, desc, func() any { return desc })
	})
}

// TestTaskExecutorBoundedReplace: on a TaskExecutor with a queue bound, re-scheduling an identifier whose task is
// pending replaces that task - the number of queued tasks does not grow, so nothing may be dropped by the bound.
func TestTaskExecutorBoundedReplace(t *testing.T) {
	const check = "taskexecutor_bounded_replace"
	stats.Rule(check, "one worker, queue bound n in 1..4: identifier 0 is scheduled first and the harness waits (bounded, steering only; otherwise the case is not judged) until the worker has taken it out of the queue; then n more identifiers are scheduled (the queue now holds exactly n = bound tasks) and 1..4 of them are re-scheduled with new callbacks and times from a grid; everything is issued >= 5 ms before the earliest due time (else not judged); waiting Shutdown under the 20 s watchdog. Oracle: for every identifier exactly the callback of its last scheduling ran, once; no task was dropped (the queue never held more than n tasks). Distinct by configuration; non-trivial = every judged case")
	rapid.Check(t, func(rt *rapid.T) {
		n := rapid.IntRange(1, 4).Draw(rt, "bound")
		type call struct{ id, slot int }
		var calls []call
		for id := 1; id <= n; id++ {
			calls = append(calls, call{id, rapid.IntRange(0, 2).Draw(rt, "slot")})
		}
		for i, k := 0, rapid.IntRange(1, 4).Draw(rt, "reschedules"); i < k; i++ {
			calls = append(calls, call{rapid.IntRange(1, n).Draw(rt, "id"), rapid.IntRange(0, 2).Draw(rt, "slot")})
		}
		var parts []string
		for _, c := range calls {
			parts = append(parts, fmt.Sprintf("at(id=%d,T%d)", c.id, c.slot))
		}
		desc := fmt.Sprintf("bound=%d at(id=0,held by the worker) %s", n, strings.Join(parts, " "))
		failf := func(format string, a ...any) {
			msg := fmt.Sprintf(format, a...)
			stats.Violation(check, map[string]any{"config": desc, "problem": msg})
			rt.Fatalf("%s: %s", desc, msg)
		}
		ex := timed.NewTaskExecutor[int](1, timed.WithMaxQueueSize(n))
		base := time.Now()
		grid := []time.Time{base.Add(70 * time.Millisecond), base.Add(80 * time.Millisecond), base.Add(90 * time.Millisecond)}
		var mu sync.Mutex
		ran := map[int]int{} // call index (-1 = identifier 0) -> runs
		ex.ExecuteAt(0, func() { mu.Lock(); ran[-1]++; mu.Unlock() }, base.Add(100*time.Millisecond))
		if !awaitFlag(func() bool { return ex.Size() == 0 }, 40*time.Millisecond) {
			ex.Shutdown(timed.CancelPendingElements)
			stats.Case(check, false, "", nil, "worker_did_not_take_the_first_task_not_judged")
			return
		}
		last := map[int]int{}
		for k, c := range calls {
			k := k
			ex.ExecuteAt(c.id, func() { mu.Lock(); ran[k]++; mu.Unlock() }, grid[c.slot])
			last[c.id] = k
		}
		if grid[0].Sub(time.Now()) < 5*time.Millisecond {
			ex.Shutdown(timed.CancelPendingElements)
			stats.Case(check, false, "", nil, "indefinite_timing_not_judged")
			return
		}
		if !ctl.WithinHang(func() { ex.Shutdown() }) {
			failf("waiting Shutdown did not return within %v after the due times\n%s", ctl.HangTimeout, ctl.Dump())
		}
		mu.Lock()
		defer mu.Unlock()
		if ran[-1] != 1 {
			failf("the task of identifier 0 ran %d times, want 1", ran[-1])
		}
		for k, c := range calls {
			switch {
			case last[c.id] == k && ran[k] != 1:
				failf("call %d (the last scheduling of identifier %d) ran %d times, want 1: the queue held at most %d tasks at any time (bound %d), so the size bound cannot have dropped it", k, c.id, ran[k], n, n)
			case last[c.id] != k && ran[k] != 0:
				failf("call %d for identifier %d ran although call %d replaced it while it was pending", k, c.id, last[c.id])
			}
		}
		stats.Case(check, true, desc, func() any { return desc })
	})
}

package c20

import "testing"

// D26: BackgroundWorker checked the stopped flag before taking the lock. A registration that passed the check and got
// the lock after the shutdown had collected the workers was added and started but never cancelled (ShutdownAndWait
// hangs when its order's WaitGroup is still awaited, or returns while the worker runs), or - after the shutdown had
// cleared its maps - panicked with "assignment to entry in nil map". The verif hook parks the call in that window.
func TestRegressionRegisterRacingShutdown(t *testing.T) {
	w := []wspec{{Name: "w0", Order: 1, When: "pre", Beh: "hold"}, {Name: "w1", Order: 0, When: "pre", Beh: "hold"}}
	for _, r := range []racer{
		{Name: "r0", Order: 3, Phase: "hook_group", Group: 0}, // started after its order's turn: never cancelled, ShutdownAndWait returns
		{Name: "r0", Order: 3, Phase: "hook_after"},           // maps already cleared: panic
		{Name: "r0", Order: 0, Phase: "hook_group", Group: 0}, // joins a WaitGroup that is still awaited: never cancelled, ShutdownAndWait hangs
	} {
		runScenario(t, scenario{Workers: w, StartMode: "start", Callers: []string{"saw"}, Racers: []racer{r}})
	}
}

// Run waited only for the WaitGroups that existed when it was called: a worker with a new order that was added while
// the daemon was running was not awaited, Run returned while it was still being stopped.
func TestRegressionRunWaitsForWorkersAddedLater(t *testing.T) {
	for i := 0; i < 5; i++ {
		runScenario(t, scenario{Workers: []wspec{{Name: "w0", Order: -1, When: "pre", Beh: "hold"}, {Name: "w1", Order: -2, When: "run", Beh: "hold"}},
			StartMode: "run", Callers: []string{"saw"}})
	}
}

package c18

import (
	"fmt"
	"sync"
	"sync/atomic"
	"testing"
	"time"

	"github.com/iotaledger/hive.go/runtime/timed"
	"pgregory.net/rapid"
	"verifharness/internal/ctl"
	"verifharness/internal/stats"
)

const (
	checkExecutor     = "executor_scripts"
	checkTaskExecutor = "taskexecutor_scripts"
)

// xtask is one scheduled callback together with everything the oracle needs to know about it.
type xtask struct {
	idx    int
	id     string
	lower  time.Time // the scheduled time (ExecuteAt) or a lower bound of it (ExecuteAfter: time before the call + delay)
	block  bool
	isNil  bool // the executor refused it (returned nil)
	handle *timed.ScheduledTask

	release  chan struct{}
	released bool

	starts   atomic.Int32
	finished atomic.Bool
	mu       sync.Mutex
	startAt  []time.Time

	// filled by the controller when the task becomes the victim of a Cancel / re-scheduling
	victimOf *xevent
	// Executor scripts: Cancel() on the handle
	cancelRet time.Time
	ignBefore bool
}

func (x *xtask) callback() func() {
	return func() {
		now := time.Now()
		x.mu.Lock()
		x.startAt = append(x.startAt, now)
		x.mu.Unlock()
		x.starts.Add(1)
		if x.block {
			<-x.release
		}
		x.finished.Store(true)
	}
}

func (x *xtask) firstStart() (time.Time, bool) {
	x.mu.Lock()
	defer x.mu.Unlock()
	if len(x.startAt) == 0 {
		return time.Time{}, false
	}

	return x.startAt[0], true
}

// xevent is a Cancel(id) or a re-scheduling of an identifier, judged at the end of the script.
type xevent struct {
	kind           string // "cancel" or "replace"
	opIndex        int
	victim         *xtask // nil: the identifier had no current task in the controller's model
	startedBefore  bool   // victim was observed started before the operation was issued
	finishedBefore bool   // victim's callback was observed finished before the operation was issued
	ret            time.Time
	result         bool // Cancel(id) return value
	ignBefore      bool // an IgnorePendingTimeouts shutdown had begun before ret
	cancelBefore   bool // a CancelPendingElements shutdown had begun before ret
}

func genExecutorScript(t *rapid.T, taskMode bool) (workers int, ops []op) {
	workers = rapid.IntRange(1, 3).Draw(t, "workers")
	n := rapid.IntRange(3, 14).Draw(t, "n")
	shutdownDone := false
	nTasks := 0
	ids := []string{"a", "a", "a", "b"}
	sched := func(d []int) op {
		o := op{Kind: rapid.SampledFrom([]string{"at", "at", "after"}).Draw(t, "how"), D: rapid.SampledFrom(d).Draw(t, "d"),
			Block: rapid.IntRange(0, 2).Draw(t, "block") == 0}
		if taskMode {
			o.ID = rapid.SampledFrom(ids).Draw(t, "id")
		}
		nTasks++

		return o
	}
	for len(ops) < n {
		kinds := []string{"sched", "sched", "sched", "sleep"}
		if nTasks > 0 {
			kinds = append(kinds, "cancel", "cancel", "release", "await", "awaitfin")
		}
		if taskMode {
			kinds = append(kinds, "macro")
		}
		if !shutdownDone && 2*len(ops) >= n {
			kinds = append(kinds, "shutdown", "shutdown")
		}
		switch k := rapid.SampledFrom(kinds).Draw(t, "kind"); k {
		case "sched":
			ops = append(ops, sched(delaysMs))
		case "sleep":
			ops = append(ops, op{Kind: "sleep", D: rapid.SampledFrom(sleepsMs).Draw(t, "ms")})
		case "cancel":
			o := op{Kind: "cancel", K: rapid.IntRange(0, nTasks-1).Draw(t, "k")}
			if taskMode {
				o.ID = rapid.SampledFrom(ids).Draw(t, "id")
			}
			ops = append(ops, o)
		case "release", "await", "awaitfin":
			ops = append(ops, op{Kind: k, K: rapid.IntRange(0, nTasks-1).Draw(t, "k")})
		case "shutdown":
			ops = append(ops, op{Kind: "shutdown", Flags: drawFlags(t, true)})
			shutdownDone = true
		case "macro":
			// "re-schedule while the previous callback runs": a due, blocking task of an identifier is awaited, then the
			// identifier is scheduled again (or cancelled), the first callback is released, and the identifier is
			// touched once more. All parameters are drawn; the controller owns the interleaving through the held callback.
			id := rapid.SampledFrom(ids).Draw(t, "mid")
			first := op{Kind: "at", D: rapid.SampledFrom([]int{-5, 0, 2}).Draw(t, "md"), Block: true, ID: id}
			firstIdx := nTasks
			nTasks++
			ops = append(ops, first, op{Kind: "await", K: firstIdx})
			touch := func(label string) {
				if rapid.IntRange(0, 3).Draw(t, label) == 0 {
					ops = append(ops, op{Kind: "cancel", ID: id})
				} else {
					o := sched([]int{5, 10, 20, 40})
					o.ID = id
					ops = append(ops, o)
				}
			}
			touch("m1")
			ops = append(ops, op{Kind: "release", K: firstIdx}, op{Kind: "awaitfin", K: firstIdx},
				op{Kind: "sleep", D: rapid.SampledFrom([]int{1, 2}).Draw(t, "ms")})
			touch("m2")
		}
	}

	return workers, ops
}

type scheduler interface {
	Shutdown(flags ...timed.ShutdownFlag)
}

func TestExecutorScripts(t *testing.T) {
	stats.Rule(checkExecutor, "rapid draws worker count 1..3 and a script of ExecuteAt/ExecuteAfter (delay from {-5,0,2,5,10,20,40}ms, callback optionally blocks until the controller releases it), Cancel on a task handle, release, bounded await-started/await-finished, Sleep and one Shutdown with every combination of {CancelPendingElements, IgnorePendingTimeouts, DontWaitForShutdown}; at the end everything is released and a waiting Shutdown is called. Oracle over callback start stamps. Distinct by script text. Non-trivial = a sound-zone Cancel with a later run of another task, or a shutdown while tasks were pending")
	rapid.Check(t, func(rt *rapid.T) {
		w, ops := genExecutorScript(rt, false)
		runExecutorScript(rt, checkExecutor, false, w, ops)
	})
}

func TestTaskExecutorScripts(t *testing.T) {
	stats.Rule(checkTaskExecutor, "as executor_scripts but on a TaskExecutor[string] with identifiers {a,b}: ExecuteAt/ExecuteAfter(id) re-scheduling, Cancel(id), and a drawn macro that holds a running callback of an identifier while the identifier is scheduled again or cancelled. Every Cancel(id)/re-scheduling is classified by what the controller observed (victim already started / victim certainly pending because the call returned >=5ms before its time / unknown) and judged against the final run counts and the returned bool. Non-trivial = an identifier re-scheduled or cancelled while its callback was observed running, or a sound-zone replacement/cancel, or a shutdown with pending tasks")
	rapid.Check(t, func(rt *rapid.T) {
		w, ops := genExecutorScript(rt, true)
		runExecutorScript(rt, checkTaskExecutor, true, w, ops)
	})
}

func runExecutorScript(t fataler, check string, taskMode bool, workers int, ops []op) {
	payload := map[string]any{"workers": workers, "ops": opStrings(ops)}
	labels := map[string]bool{}
	nontrivial := false
	var sleepTotal time.Duration
	for _, o := range ops {
		switch o.Kind {
		case "sleep":
			sleepTotal += time.Duration(o.D) * time.Millisecond
		case "await", "awaitfin":
			sleepTotal += 100 * time.Millisecond
		}
	}

	body := func() string {
		var (
			ex  *timed.Executor
			tex *timed.TaskExecutor[string]
			sch scheduler
		)
		var probeEx *timed.Executor
		if taskMode {
			tex = timed.NewTaskExecutor[string](workers)
			sch, probeEx = tex, tex.Executor
		} else {
			ex = timed.NewExecutor(workers)
			sch, probeEx = ex, ex
		}
		var (
			tasks            []*xtask
			events           []*xevent
			cur              = map[string]*xtask{}
			shutdownCalled   bool
			shutdownFlags    int
			shutdownStart    time.Time
			shutdownRet      = make(chan time.Time, 2)
			shutdownReturned bool // the shutdown is in effect: a DontWaitForShutdown call returned or the probe was refused
			waitingPending   int  // waiting Shutdown calls in flight
			lastDue          = time.Now()
		)
		releaseTask := func(x *xtask) {
			if !x.released {
				x.released = true
				close(x.release)
			}
		}
		defer func() {
			for _, x := range tasks {
				releaseTask(x)
			}
			// no-op after a regular end of the script; stops the workers when the script ended with a failure
			go sch.Shutdown(timed.CancelPendingElements, timed.DontWaitForShutdown)
		}()
		for i, o := range ops {
			switch o.Kind {
			case "at", "after":
				x := &xtask{idx: len(tasks), id: o.ID, block: o.Block, release: make(chan struct{})}
				d := time.Duration(o.D) * time.Millisecond
				var victim *xtask
				var ev *xevent
				if taskMode {
					if victim = cur[o.ID]; victim != nil {
						ev = &xevent{kind: "replace", opIndex: i, victim: victim, finishedBefore: victim.finished.Load(), startedBefore: victim.starts.Load() > 0}
					}
				}
				before := time.Now()
				x.lower = before.Add(d)
				switch {
				case taskMode && o.Kind == "at":
					x.handle = tex.ExecuteAt(o.ID, x.callback(), x.lower)
				case taskMode:
					x.handle = tex.ExecuteAfter(o.ID, x.callback(), d)
				case o.Kind == "at":
					x.handle = ex.ExecuteAt(x.callback(), x.lower)
				default:
					x.handle = ex.ExecuteAfter(x.callback(), d)
				}
				ret := time.Now()
				x.isNil = x.handle == nil
				tasks = append(tasks, x)
				if x.isNil && !shutdownCalled {
					return fmt.Sprintf("task %d: executor returned nil although Shutdown was never called", x.idx)
				}
				if !x.isNil && shutdownReturned {
					return fmt.Sprintf("task %d: executor accepted a task although Shutdown had returned", x.idx)
				}
				if ev != nil && x.isNil {
					// a re-scheduling that is refused (shutdown) replaces nothing: the pending task of the identifier is
					// still owed (judged like a task that was never touched)
					ev = nil
					labels["refused_reschedule_keeps_pending"] = true
				}
				if ev != nil {
					ev.ret = ret
					ev.ignBefore = shutdownCalled && shutdownFlags&fIgnore != 0
					ev.cancelBefore = shutdownCalled && shutdownFlags&fCancel != 0
					victim.victimOf = ev
					events = append(events, ev)
				}
				if taskMode && !x.isNil {
					cur[o.ID] = x
				}
				if due := time.Now().Add(d); due.After(lastDue) {
					lastDue = due
				}
			case "cancel":
				if taskMode {
					victim := cur[o.ID]
					ev := &xevent{kind: "cancel", opIndex: i, victim: victim}
					if victim != nil {
						ev.finishedBefore = victim.finished.Load()
						ev.startedBefore = victim.starts.Load() > 0
					}
					ev.result = tex.Cancel(o.ID)
					ev.ret = time.Now()
					ev.ignBefore = shutdownCalled && shutdownFlags&fIgnore != 0
					ev.cancelBefore = shutdownCalled && shutdownFlags&fCancel != 0
					if victim != nil {
						victim.victimOf = ev
					}
					delete(cur, o.ID)
					events = append(events, ev)

					continue
				}
				x := tasks[o.K%len(tasks)]
				if x.isNil {
					continue
				}
				x.handle.Cancel()
				ret := time.Now()
				if x.cancelRet.IsZero() {
					x.cancelRet = ret
					x.ignBefore = shutdownCalled && shutdownFlags&fIgnore != 0
				}
			case "release":
				releaseTask(tasks[o.K%len(tasks)])
			case "await":
				x := tasks[o.K%len(tasks)]
				if awaitFlag(func() bool { return x.starts.Load() > 0 }, time.Until(x.lower)+30*time.Millisecond) {
					labels["await_started_ok"] = true
				}
			case "awaitfin":
				x := tasks[o.K%len(tasks)]
				if awaitFlag(x.finished.Load, 30*time.Millisecond) {
					labels["await_finished_ok"] = true
				}
			case "sleep":
				time.Sleep(time.Duration(o.D) * time.Millisecond)
			case "shutdown":
				shutdownFlags = o.Flags
				shutdownStart = time.Now()
				shutdownCalled = true
				flags := flagList(o.Flags)
				if o.Flags&fNoWait != 0 {
					// must return without waiting for the workers; the guard around the script catches a hang
					sch.Shutdown(flags...)
					shutdownReturned = true
				} else {
					waitingPending++
					go func() {
						sch.Shutdown(flags...)
						shutdownRet <- time.Now()
					}()
					// The script continues only once the shutdown is in effect, so that every later scheduling call is
					// ordered after it (a scheduling call that overlaps Shutdown is outside the generated domain). The
					// probe is a far-future no-op that is cancelled at once; nil means "executor is shut down".
					deadline := time.Now().Add(ctl.HangTimeout)
					for {
						probe := probeEx.ExecuteAt(func() {}, time.Now().Add(time.Hour))
						if probe == nil {
							break
						}
						probe.Cancel()
						if time.Now().After(deadline) {
							return "hang: Shutdown called in its own goroutine did not take effect within " + ctl.HangTimeout.String() + "\n" + ctl.Dump()
						}
						time.Sleep(50 * time.Microsecond)
					}
					shutdownReturned = true
				}
			}
		}
		// ---- finalization: release everything, wait for (or issue) a waiting Shutdown ----
		for _, x := range tasks {
			releaseTask(x)
		}
		if !shutdownCalled {
			shutdownStart = time.Now()
			labels["final_shutdown_plain"] = true
		}
		if waitingPending == 0 {
			waitingPending++
			go func() {
				sch.Shutdown()
				shutdownRet <- time.Now()
			}()
		}
		var waitRet time.Time
		select {
		case waitRet = <-shutdownRet:
		case <-time.After(time.Until(lastDue) + ctl.HangTimeout):
			return "hang: Shutdown (waiting for the workers) did not return within " + ctl.HangTimeout.String() + " after the last due time although every callback was released\n" + ctl.Dump()
		}
		// give a (wrong) late callback the chance to show up; on a correct executor every worker has exited
		ctl.Settle(time.Millisecond)

		// ---- oracle ----
		pendingAtShutdown := 0
		soundCancel, otherLater, runningTouched, soundEvent := false, false, false, false
		for _, x := range tasks {
			lo, hi := 1, 1
			why := "scheduled, never cancelled or replaced"
			if x.isNil {
				lo, hi, why = 0, 0, "refused after shutdown"
				labels["schedule_after_shutdown"] = true
			}
			if !x.cancelRet.IsZero() { // Executor scripts: handle cancel
				if !x.ignBefore && !x.cancelRet.After(x.lower.Add(-soundMargin)) {
					lo, hi, why = 0, 0, fmt.Sprintf("Cancel returned %.3fms before its scheduled time", msOf(x.lower.Sub(x.cancelRet)))
					labels["cancel_sound_zone"] = true
					soundCancel = true
					for _, y := range tasks {
						if st, ok := y.firstStart(); ok && y != x && st.After(x.cancelRet) {
							otherLater = true
						}
					}
				} else {
					lo, why = 0, "Cancel in the unasserted zone"
					labels["cancel_unasserted_zone"] = true
				}
			}
			if ev := x.victimOf; ev != nil {
				sound := !ev.ignBefore && !ev.ret.After(x.lower.Add(-soundMargin))
				switch {
				case ev.startedBefore:
					labels[ev.kind+"_while_started"] = true
					if !ev.finishedBefore {
						runningTouched = true
						labels[ev.kind+"_while_running"] = true
					}
					if ev.kind == "cancel" && ev.result && !ev.cancelBefore {
						return fmt.Sprintf("op %d: Cancel(%s) returned true although the identifier's callback (task %d) had already started: nothing pending was prevented", ev.opIndex, x.id, x.idx)
					}
				case sound:
					labels[ev.kind+"_sound_zone"] = true
					soundEvent = true
					lo, hi, why = 0, 0, fmt.Sprintf("op %d (%s of its identifier) returned %.3fms before its scheduled time", ev.opIndex, ev.kind, msOf(x.lower.Sub(ev.ret)))
					// (after a Shutdown with CancelPendingElements the task may have been dropped already: false is the truth then)
					if ev.kind == "cancel" && !ev.result && !ev.cancelBefore {
						return fmt.Sprintf("op %d: Cancel(%s) returned false %.3fms before the scheduled time of the pending task %d", ev.opIndex, x.id, msOf(x.lower.Sub(ev.ret)), x.idx)
					}
				default:
					labels[ev.kind+"_unasserted_zone"] = true
					if ev.kind == "replace" {
						lo, why = 0, "replaced in the unasserted zone"
					}
				}
				if ev.kind == "cancel" && !ev.startedBefore {
					if ev.result {
						lo, hi, why = 0, 0, fmt.Sprintf("op %d Cancel(%s) returned true", ev.opIndex, x.id)
					} else if !sound {
						why = fmt.Sprintf("op %d Cancel(%s) returned false (nothing prevented)", ev.opIndex, x.id)
					}
				}
			}
			if shutdownCalled && shutdownFlags&fCancel != 0 && hi > 0 {
				lo = 0
				why += "; may be dropped by CancelPendingElements"
			}
			n := int(x.starts.Load())
			if n > 1 {
				return fmt.Sprintf("task %d (%s) ran %d times", x.idx, x.id, n)
			}
			if n < lo || n > hi {
				return fmt.Sprintf("task %d (id %q) ran %d time(s), expected between %d and %d: %s", x.idx, x.id, n, lo, hi, why)
			}
			st, started := x.firstStart()
			if started {
				if st.Before(x.lower) {
					if !(shutdownCalled && shutdownFlags&fIgnore != 0 && !st.Before(shutdownStart)) {
						return fmt.Sprintf("task %d started %.3fms before its scheduled time (no IgnorePendingTimeouts shutdown before)", x.idx, msOf(x.lower.Sub(st)))
					}
					labels["early_by_ignore_flag"] = true
				}
				if st.After(waitRet) {
					return fmt.Sprintf("task %d started %.3fms after Shutdown (waiting) had returned", x.idx, msOf(st.Sub(waitRet)))
				}
			}
			if !x.isNil && (!started || !st.Before(shutdownStart)) {
				pendingAtShutdown++
			}
		}
		for _, ev := range events {
			if ev.kind == "cancel" && ev.victim == nil && ev.result {
				return fmt.Sprintf("op %d: Cancel(id) returned true although the identifier had no task (never scheduled, refused, or already cancelled)", ev.opIndex)
			}
		}
		if pendingAtShutdown > 0 {
			labels["shutdown_"+flagName(shutdownFlags)+"_with_pending"] = true
		}
		labels[fmt.Sprintf("workers_%d", workers)] = true
		nontrivial = (soundCancel && otherLater) || pendingAtShutdown > 0 || runningTouched || soundEvent

		return ""
	}

	failure, _ := runGuarded(sleepTotal+2*time.Second+2*ctl.HangTimeout, body)
	if failure != "" {
		fail(t, check, payload, failure)
	}
	var ls []string
	for l := range labels {
		ls = append(ls, l)
	}
	stats.Case(check, nontrivial, fmt.Sprint(workers, payload["ops"]), func() any { return payload }, ls...)
}

// Demonstration of an independent auditor (eighth round), kept as a regression test; see known_findings.json.
package c01

import (
	"context"
	"reflect"
	"testing"

	"github.com/stretchr/testify/require"

	"github.com/iotaledger/hive.go/serializer/v2/serix"
)

// Repair 5fcf277 (hasKeyOfMember) decides whether an omitted inlined interface member is present by looking for the
// key "type" in the object of the surrounding struct. That key is not the member's own: the surrounding struct's type
// code, or the type code of another inlined member, lives under the same key. A nil `inlined,optional` interface is
// left out by MapEncode/JSONEncode, MapDecode/JSONDecode sees the foreign "type" entry, takes the member for present
// and decodes the whole object as an implementation of the interface: the encoder's own output is refused (or, when
// the code happens to be registered for the interface, the nil member comes back non-nil).

type h34IfaceA interface{ h34a() }
type h34IfaceB interface{ h34b() }

type h34ImplA struct {
	Foo uint8 `serix:"foo"`
}

func (h34ImplA) h34a() {}

type h34ImplB struct {
	Bar uint8 `serix:"bar"`
}

func (h34ImplB) h34b() {}

// two optional inlined interface members: every value with at most one of them set has a map form
type h34Two struct {
	A h34IfaceA `serix:",inlined,optional"`
	B h34IfaceB `serix:",inlined,optional"`
}

// a struct with a type code of its own and an optional inlined interface member
type h34Parent struct {
	X uint8     `serix:"x"`
	I h34IfaceA `serix:",inlined,optional"`
}

func h34API(t *testing.T) *serix.API {
	api := serix.NewAPI()
	require.NoError(t, api.RegisterTypeSettings(h34ImplA{}, serix.TypeSettings{}.WithObjectType(uint8(7))))
	require.NoError(t, api.RegisterTypeSettings(h34ImplB{}, serix.TypeSettings{}.WithObjectType(uint8(9))))
	require.NoError(t, api.RegisterTypeSettings(h34Parent{}, serix.TypeSettings{}.WithObjectType(uint8(1))))
	require.NoError(t, api.RegisterInterfaceObjects((*h34IfaceA)(nil), h34ImplA{}))
	require.NoError(t, api.RegisterInterfaceObjects((*h34IfaceB)(nil), h34ImplB{}))

	return api
}

func TestRegressionAudit34_34NilInlinedInterfaceNextToAnotherInlinedInterface(t *testing.T) {
	api := h34API(t)
	src := h34Two{A: h34ImplA{Foo: 5}, B: nil}

	// the binary form round-trips
	b, err := api.Encode(context.Background(), src)
	require.NoError(t, err)
	var binDst h34Two
	n, err := api.Decode(context.Background(), b, &binDst)
	require.NoError(t, err)
	require.Equal(t, len(b), n)
	require.Equal(t, src, binDst)

	j, err := api.JSONEncode(context.Background(), src)
	if err != nil {
		// the property speaks about values that the encoder accepts: a struct type with two owners of the "type" key may
		// be refused as a whole (it is, since the follow-up repair) - but only with the error that says so
		require.ErrorContains(t, err, "used more than once in the map form")

		return
	}
	t.Logf("json: %s", j)

	var dst h34Two
	require.NoError(t, api.JSONDecode(context.Background(), j, &dst), "JSONDecode refuses the output of JSONEncode")
	require.True(t, reflect.DeepEqual(src, dst), "got %#v, want %#v", dst, src)

	// (the mirrored value - only B set - is read back: A is decoded first and fails the same way)
}

func TestRegressionAudit34_34NilInlinedInterfaceInStructWithTypeCode(t *testing.T) {
	api := h34API(t)
	src := h34Parent{X: 3, I: nil}

	b, err := api.Encode(context.Background(), src)
	require.NoError(t, err)
	var binDst h34Parent
	_, err = api.Decode(context.Background(), b, &binDst)
	require.NoError(t, err)
	require.Equal(t, src, binDst)

	j, err := api.JSONEncode(context.Background(), src)
	if err != nil {
		// the property speaks about values that the encoder accepts: a struct type with two owners of the "type" key may
		// be refused as a whole (it is, since the follow-up repair) - but only with the error that says so
		require.ErrorContains(t, err, "used more than once in the map form")

		return
	}
	t.Logf("json: %s", j)

	var dst h34Parent
	require.NoError(t, api.JSONDecode(context.Background(), j, &dst), "JSONDecode refuses the output of JSONEncode")
	require.Equal(t, src, dst)
}

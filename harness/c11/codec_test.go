package c11

import (
	"fmt"
	"testing"

	"github.com/iotaledger/hive.go/ds"
	"github.com/iotaledger/hive.go/serializer/v2/serix"
	"pgregory.net/rapid"
	"verifharness/internal/stats"
)

// roundTripSet encodes a set, decodes it into a fresh one (with `trailing` extra bytes behind the encoding) and compares
// contents, order and the consumed byte count.
func roundTripSet[T comparable](api *serix.API, elems []T, trailing []byte) string {
	s := ds.NewSet[T]()
	var order []T
	for _, e := range elems {
		if s.Add(e) {
			order = append(order, e)
		}
	}
	b, err := s.Encode(api)
	if err != nil {
		return fmt.Sprintf("Encode of %v failed: %v", order, err)
	}
	fresh := ds.NewSet[T]()
	n, err := fresh.Decode(api, append(append([]byte{}, b...), trailing...))
	if err != nil || n != len(b) {
		return fmt.Sprintf("Decode of the %d bytes %x produced by Encode (%d trailing bytes) consumed %d bytes, err=%v", len(b), b, len(trailing), n, err)
	}
	got := fresh.ToSlice()
	if len(got) != len(order) {
		return fmt.Sprintf("Encode->Decode of %v yields %v", order, got)
	}
	for i := range got {
		if got[i] != order[i] {
			return fmt.Sprintf("Encode->Decode of %v yields %v (order or contents differ)", order, got)
		}
	}

	return ""
}

// TestSetCodecElementWidths: the Encode/Decode round trip of ds.Set for element types of every encoded width, including
// the one-byte types whose entries (element plus empty value) occupy a single byte.
func TestSetCodecElementWidths(t *testing.T) {
	const check = "set_codec_element_widths"
	stats.Rule(check, "rapid draws an element type from {bool, uint8, int8, uint16, int32, uint64, [4]byte}, 0..12 elements (duplicates allowed, insertion order kept) and 0..3 trailing bytes; ds.Set.Encode then Decode into a fresh set. Oracle: Decode succeeds, consumes exactly the encoded length (also with trailing bytes) and yields the same elements in the same order. Distinct by (type, elements, trailing); non-trivial = a one-byte element type with >= 1 element")
	api := serix.NewAPI()
	rapid.Check(t, func(rt *rapid.T) {
		kind := rapid.SampledFrom([]string{"bool", "uint8", "int8", "uint16", "int32", "uint64", "[4]byte"}).Draw(rt, "type")
		n := rapid.IntRange(0, 12).Draw(rt, "n")
		trailing := rapid.SliceOfN(rapid.Byte(), 0, 3).Draw(rt, "trailing")
		var problem, desc string
		switch kind {
		case "bool":
			e := rapid.SliceOfN(rapid.Bool(), n, n).Draw(rt, "elems")
			problem, desc = roundTripSet(api, e, trailing), fmt.Sprint(e)
		case "uint8":
			e := rapid.SliceOfN(rapid.Uint8(), n, n).Draw(rt, "elems")
			problem, desc = roundTripSet(api, e, trailing), fmt.Sprint(e)
		case "int8":
			e := rapid.SliceOfN(rapid.Int8(), n, n).Draw(rt, "elems")
			problem, desc = roundTripSet(api, e, trailing), fmt.Sprint(e)
		case "uint16":
			e := rapid.SliceOfN(rapid.Uint16(), n, n).Draw(rt, "elems")
			problem, desc = roundTripSet(api, e, trailing), fmt.Sprint(e)
		case "int32":
			e := rapid.SliceOfN(rapid.Int32(), n, n).Draw(rt, "elems")
			problem, desc = roundTripSet(api, e, trailing), fmt.Sprint(e)
		case "uint64":
			e := rapid.SliceOfN(rapid.Uint64(), n, n).Draw(rt, "elems")
			problem, desc = roundTripSet(api, e, trailing), fmt.Sprint(e)
		default:
			raw := rapid.SliceOfN(rapid.SliceOfN(rapid.Byte(), 4, 4), n, n).Draw(rt, "elems")
			e := make([][4]byte, len(raw))
			for i := range raw {
				copy(e[i][:], raw[i])
			}
			problem, desc = roundTripSet(api, e, trailing), fmt.Sprint(e)
		}
		key := fmt.Sprintf("%s|%s|%x", kind, desc, trailing)
		stats.Case(check, n > 0 && (kind == "bool" || kind == "uint8" || kind == "int8"), key, func() any { return key }, "type:"+kind)
		if problem != "" {
			stats.Violation(check, map[string]any{"type": kind, "elements": desc, "trailing": fmt.Sprintf("%x", trailing), "problem": problem})
			rt.Fatalf("Set[%s]: %s", kind, problem)
		}
	})
}

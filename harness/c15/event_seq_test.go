package c15

import (
	"fmt"
	"sort"
	"strings"
	"sync/atomic"
	"testing"

	"pgregory.net/rapid"
	"verifharness/internal/ctl"
	"verifharness/internal/stats"
)

// ---------------------------------------------------------------------------------------------------------------
// Sequential state machine for runtime/event.
//
// Domain: 4 events of one arity (0, 1 or 2 generic parameters), each optionally created with
// WithMaxTriggerCount / WithWorkerPool(pool) / WithWorkerPool(nil); actions Hook (sync, pooled, forced in-place,
// WithMaxTriggerCount(n), optionally a callback that unhooks itself = the usual "once" idiom), Unhook (of any hook
// ever created: live, already unhooked, or self-removed), Trigger, LinkTo(target | nil). LinkTo never forms a cycle
// (a cycle is an endless recursion by construction, no caller builds one). The shared pool is started.
//
// Oracle: a reference model (ordered hook list per event with remaining counts, link = a hook of the target at its
// attachment position). Every Trigger carries a unique id, so an (event, id) pair names one trigger of one event.
//   * when Trigger returns: for every event reached without a pool on the way, the calls of its in-place hooks are
//     exactly the model's list, in attachment order;
//   * when the pool has drained: the multiset of all (hook, id) calls equals the model's, and for every event the
//     calls of its in-place hooks are in attachment order.
// Not asserted: order between different events' hooks, order of pooled hooks, anything about hooks that are attached
// or unhooked by a callback while the trigger is running (other than a hook unhooking itself).
// ---------------------------------------------------------------------------------------------------------------

const seqCheck = "event_sequential"

type mHook struct {
	id         int
	ev         int
	max, count int
	pool       poolSel
	selfUnhook bool
	link       int // -1 = ordinary hook; otherwise the event that is linked through this hook
	live       bool
	unhook     func()
}

type mEvent struct {
	api        evAPI
	max, count int
	pool       poolSel
	hooks      []*mHook
	target     int // -1 = not linked
	linkHook   *mHook

	unhookedSinceTrigger bool // a live hook was unhooked and the event has not been triggered since
	relinkedAwayFrom     bool // some event changed its link away from this one; not triggered since
}

type expCall struct {
	hook, arg, ev int
	sync          bool
}

type seqMachine struct {
	arity   int
	cur     atomic.Int64
	log     callLog
	events  []*mEvent
	hooks   []*mHook
	nextArg int
	actions []string

	usesPool                                 bool
	sawUnhookThenTrigger, sawRelinkThenFire  bool
	sawRelinkSameTarget                      bool
	sawEventMaxExhausted, sawHookMaxExhaust  bool
	sawSelfUnhook, sawPooledCall, sawLinkHop bool
}

func (m *seqMachine) remove(h *mHook) {
	if !h.live {
		return
	}
	h.live = false
	e := m.events[h.ev]
	for i, x := range e.hooks {
		if x == h {
			e.hooks = append(e.hooks[:i:i], e.hooks[i+1:]...)
			break
		}
	}
}

// modelTrigger computes what a Trigger(arg) of event ev must cause. reached[ev] = true if ev is reached in-place.
func (m *seqMachine) modelTrigger(ev, arg int, inPlace bool, out *[]expCall, reached map[int]bool) {
	e := m.events[ev]
	e.count++
	if e.max != 0 && e.count > e.max {
		m.sawEventMaxExhausted = true
		return
	}
	reached[ev] = inPlace
	if e.unhookedSinceTrigger {
		m.sawUnhookThenTrigger = true
		e.unhookedSinceTrigger = false
	}
	if e.relinkedAwayFrom {
		m.sawRelinkThenFire = true
		e.relinkedAwayFrom = false
	}
	for _, h := range append([]*mHook(nil), e.hooks...) {
		if !h.live {
			continue
		}
		h.count++
		if h.max != 0 && h.count > h.max {
			m.sawHookMaxExhaust = true
			m.remove(h)
			continue
		}
		pooled := effectivePooled(h.pool, e.pool)
		if h.link >= 0 {
			m.sawLinkHop = true
			m.modelTrigger(h.link, arg, inPlace && !pooled, out, reached)
			continue
		}
		if pooled {
			m.sawPooledCall = true
		}
		*out = append(*out, expCall{hook: h.id, arg: arg, ev: ev, sync: !pooled})
		if h.selfUnhook {
			m.sawSelfUnhook = true
			m.remove(h)
		}
	}
}

func (m *seqMachine) fail(t *rapid.T, problem string, extra map[string]any) {
	p := map[string]any{"arity": m.arity, "actions": m.actions, "problem": problem}
	for k, v := range extra {
		p[k] = v
	}
	stats.Violation(seqCheck, p)
	t.Fatalf("%s\nactions:\n  %s\n%v", problem, strings.Join(m.actions, "\n  "), extra)
}

func hooksOf(recs []callRec) []int {
	out := make([]int, 0, len(recs))
	for _, r := range recs {
		out = append(out, r.Hook)
	}
	return out
}

func sortedRecs(recs []callRec) []callRec {
	out := append([]callRec(nil), recs...)
	sort.Slice(out, func(i, j int) bool {
		if out[i].Hook != out[j].Hook {
			return out[i].Hook < out[j].Hook
		}
		return out[i].Arg < out[j].Arg
	})
	return out
}

func eqInts(a, b []int) bool {
	if len(a) != len(b) {
		return false
	}
	for i := range a {
		if a[i] != b[i] {
			return false
		}
	}
	return true
}

func eqRecs(a, b []callRec) bool {
	if len(a) != len(b) {
		return false
	}
	for i := range a {
		if a[i] != b[i] {
			return false
		}
	}
	return true
}

// judge compares the observed calls of one Trigger step with the model. It is a pure function of its arguments so
// that the regression tests can call it too.
func (m *seqMachine) judge(exp []expCall, reached map[int]bool, atReturn, full []callRec) (string, map[string]any) {
	inPlaceHook := func(id int) (ev int, sync bool) {
		h := m.hooks[id]
		return h.ev, !effectivePooled(h.pool, m.events[h.ev].pool)
	}
	expInPlace := map[int][]int{} // event -> hooks expected, attachment order
	expAll := make([]callRec, 0, len(exp))
	for _, c := range exp {
		expAll = append(expAll, callRec{c.hook, c.arg})
		if c.sync {
			expInPlace[c.ev] = append(expInPlace[c.ev], c.hook)
		}
	}
	project := func(recs []callRec, ev int) []int {
		var out []int
		for _, r := range recs {
			if e, s := inPlaceHook(r.Hook); e == ev && s {
				out = append(out, r.Hook)
			}
		}
		return out
	}
	for ev := range m.events {
		if in, ok := reached[ev]; ok && in {
			if got := project(atReturn, ev); !eqInts(got, expInPlace[ev]) {
				return fmt.Sprintf("when Trigger returned, in-place hooks of event %d had been called as %v, model says %v (attachment order)", ev, got, expInPlace[ev]),
					map[string]any{"observed_at_return": atReturn, "expected_all": expAll}
			}
		}
	}
	if !eqRecs(sortedRecs(full), sortedRecs(expAll)) {
		return fmt.Sprintf("after the pool drained the calls were %v, model says %v (as multisets)", sortedRecs(full), sortedRecs(expAll)),
			map[string]any{"observed": full, "expected_all": expAll}
	}
	for ev := range m.events {
		if got := project(full, ev); !eqInts(got, expInPlace[ev]) {
			return fmt.Sprintf("in-place hooks of event %d were called in order %v, attachment order is %v", ev, got, expInPlace[ev]),
				map[string]any{"observed": full, "expected_all": expAll}
		}
	}
	return "", nil
}

func (m *seqMachine) doTrigger(t *rapid.T, ev int) {
	m.nextArg++
	arg := m.nextArg
	m.actions = append(m.actions, fmt.Sprintf("trigger e%d #%d", ev, arg))
	var exp []expCall
	reached := map[int]bool{}
	m.modelTrigger(ev, arg, true, &exp, reached)

	from := m.log.len()
	if !ctl.Within(ctl.HangTimeout, func() { m.events[ev].api.Trigger(arg) }) {
		m.fail(t, "Trigger did not return", map[string]any{"goroutines": ctl.Dump()})
	}
	atReturn := m.log.snapshot(from)
	if m.usesPool {
		if !drainPool() {
			m.fail(t, "worker pool did not drain after Trigger", map[string]any{"goroutines": ctl.Dump()})
		}
	}
	full := m.log.snapshot(from)
	if problem, extra := m.judge(exp, reached, atReturn, full); problem != "" {
		m.fail(t, problem, extra)
	}
}

func (m *seqMachine) doHook(ev, max int, pool poolSel, self bool) *mHook {
	h := &mHook{id: len(m.hooks), ev: ev, max: max, pool: pool, selfUnhook: self, link: -1, live: true}
	m.hooks = append(m.hooks, h)
	e := m.events[ev]
	e.hooks = append(e.hooks, h)
	if pool == poolShared {
		m.usesPool = true
	}
	id := h.id
	h.unhook = e.api.Hook(func(arg int) {
		m.log.add(id, arg)
		if self {
			h.unhook()
		}
	}, evOpts(max, pool)...)
	desc := fmt.Sprintf("hook h%d on e%d pool=%s", id, ev, pool)
	if max > 0 {
		desc += fmt.Sprintf(" max=%d", max)
	}
	if self {
		desc += " unhooks-itself"
	}
	m.actions = append(m.actions, desc)
	return h
}

func (m *seqMachine) doUnhook(h *mHook) {
	m.actions = append(m.actions, fmt.Sprintf("unhook h%d", h.id))
	if h.live {
		m.events[h.ev].unhookedSinceTrigger = true
	}
	m.remove(h)
	h.unhook()
}

// wouldCycle reports whether linking ev to target closes a cycle (target's link chain reaches ev).
func (m *seqMachine) wouldCycle(ev, target int) bool {
	for x := target; x >= 0; x = m.events[x].target {
		if x == ev {
			return true
		}
	}
	return false
}

func (m *seqMachine) doLink(ev, target int) {
	e := m.events[ev]
	if target >= 0 {
		m.actions = append(m.actions, fmt.Sprintf("link e%d -> e%d", ev, target))
	} else {
		m.actions = append(m.actions, fmt.Sprintf("link e%d -> nil", ev))
	}
	if e.linkHook != nil && e.target == target {
		// linking to the current target changes nothing: the link hook stays where it is in the target's hook order
		e.api.LinkTo(m.events[target].api)
		m.sawRelinkSameTarget = true

		return
	}
	if e.linkHook != nil {
		if e.target != target {
			m.events[e.target].relinkedAwayFrom = true
		}
		m.remove(e.linkHook)
		e.linkHook, e.target = nil, -1
	}
	if target >= 0 {
		// the link is an ordinary option-less hook of the target, attached now: id -1 space is not logged
		h := &mHook{id: -1, ev: target, link: ev, live: true}
		m.events[target].hooks = append(m.events[target].hooks, h)
		e.linkHook, e.target = h, target
		e.api.LinkTo(m.events[target].api)
	} else {
		e.api.LinkTo(nil)
	}
}

func runEventSequential(t *rapid.T) {
	m := &seqMachine{arity: rapid.IntRange(0, 2).Draw(t, "arity")}
	const nEvents = 4
	for i := 0; i < nEvents; i++ {
		max := rapid.SampledFrom([]int{0, 0, 0, 0, 1, 2, 3, 5}).Draw(t, fmt.Sprintf("e%d.max", i))
		pool := rapid.SampledFrom([]poolSel{poolUnset, poolUnset, poolUnset, poolUnset, poolShared, poolForced}).Draw(t, fmt.Sprintf("e%d.pool", i))
		if pool == poolShared {
			m.usesPool = true
		}
		m.events = append(m.events, &mEvent{api: newEvAPI(m.arity, &m.cur, evOpts(max, pool)...), max: max, pool: pool, target: -1})
		desc := fmt.Sprintf("event e%d pool=%s", i, pool)
		if max > 0 {
			desc += fmt.Sprintf(" max=%d", max)
		}
		m.actions = append(m.actions, desc)
	}
	evGen := rapid.IntRange(0, nEvents-1)

	t.Repeat(map[string]func(*rapid.T){
		"hook": func(t *rapid.T) {
			ev := evGen.Draw(t, "ev")
			max := rapid.SampledFrom([]int{0, 0, 0, 0, 1, 2, 3}).Draw(t, "max")
			pool := rapid.SampledFrom([]poolSel{poolUnset, poolUnset, poolUnset, poolShared, poolForced}).Draw(t, "pool")
			self := rapid.IntRange(0, 7).Draw(t, "self") == 0
			m.doHook(ev, max, pool, self)
		},
		"unhook": func(t *rapid.T) {
			if len(m.hooks) == 0 {
				t.Skip("no hook yet")
			}
			m.doUnhook(m.hooks[rapid.IntRange(0, len(m.hooks)-1).Draw(t, "h")])
		},
		"trigger": func(t *rapid.T) {
			m.doTrigger(t, evGen.Draw(t, "ev"))
		},
		"trigger2": func(t *rapid.T) { // triggers are the observations: give them double weight
			m.doTrigger(t, evGen.Draw(t, "ev"))
		},
		"link": func(t *rapid.T) {
			ev := evGen.Draw(t, "ev")
			target := rapid.IntRange(-1, nEvents-1).Draw(t, "target")
			if target >= 0 && m.wouldCycle(ev, target) {
				t.Skip("would form a link cycle")
			}
			m.doLink(ev, target)
		},
	})

	labels := []string{fmt.Sprintf("arity:%d", m.arity)}
	add := func(b bool, l string) {
		if b {
			labels = append(labels, l)
		}
	}
	add(m.sawUnhookThenTrigger, "unhook_then_trigger")
	add(m.sawRelinkThenFire, "relink_then_former_target_fires")
	add(m.sawRelinkSameTarget, "relink_to_the_same_target")
	add(m.sawEventMaxExhausted, "event_max_exhausted")
	add(m.sawHookMaxExhaust, "hook_max_exhausted")
	add(m.sawSelfUnhook, "self_unhook_called")
	add(m.sawPooledCall, "pooled_call")
	add(m.sawLinkHop, "link_fired")
	stats.Case(seqCheck, m.sawUnhookThenTrigger && m.sawRelinkThenFire, strings.Join(m.actions, ";"),
		func() any { return map[string]any{"arity": m.arity, "actions": m.actions} }, labels...)
}

func TestEventSequential(t *testing.T) {
	stats.Rule(seqCheck, "rapid state machine over 4 events of one arity (0,1,2) with drawn event options; actions hook(sync/pooled/forced in-place, max n, self-unhooking)/unhook(any hook ever made)/trigger/link(target|nil, acyclic); reference model with ordered hook lists and remaining counts; distinct by the full action list; non-trivial = the history contains an unhook of a live hook followed by a trigger of its event AND a link change away from a target followed by a trigger of that former target")
	rapid.Check(t, runEventSequential)
}

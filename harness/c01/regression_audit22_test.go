// Demonstration of an independent auditor (repair audit round), kept as a regression test; see known_findings.json.
package c01

import (
	"context"
	"math/big"
	"testing"
	"time"

	"github.com/stretchr/testify/require"

	"github.com/iotaledger/hive.go/serializer/v2/serix"
)

// a struct that embeds time.Time (a common Go idiom) and marks the embedded field for serix
type hunt22Stamped struct {
	time.Time `serix:""`
	Value     uint8 `serix:""`
}

// the same with a named field (control)
type hunt22StampedNamed struct {
	Time  time.Time `serix:""`
	Value uint8     `serix:""`
}

// the other natively encoded type, embedded through its pointer
type hunt22Amount struct {
	*big.Int `serix:""`
	Value    uint8 `serix:""`
}

// serix encodes time.Time (and *big.Int) natively wherever it meets them as a value - except as an embedded struct field:
// parseStructFields classifies the field as an embedded struct, encodeStructFields/mapEncodeStructFields splice "the
// fields of the embedded struct" into the parent, time.Time has no serix fields - and the time stamp is silently left
// out of the binary and of the JSON form. Decode reads what is there and returns the zero time.
func TestRegressionAudit22EmbeddedTimeIsSilentlyDropped(t *testing.T) {
	api := serix.NewAPI()
	ctx := context.Background()

	src := hunt22Stamped{Time: time.Unix(1700000000, 0).UTC(), Value: 7}

	for _, validation := range []bool{false, true} {
		var opts []serix.Option
		if validation {
			opts = append(opts, serix.WithValidation())
		}

		b, err := api.Encode(ctx, src, opts...)
		require.NoError(t, err) // (refusing the type would be fine)

		var dst hunt22Stamped
		n, err := api.Decode(ctx, b, &dst, opts...)
		require.NoError(t, err)
		require.Equal(t, len(b), n)
		require.Equal(t, src.Value, dst.Value)
		if !src.Time.Equal(dst.Time) {
			t.Errorf("binary form (validation=%v): encoded %s (value %d) as %x, decoded %s (value %d)",
				validation, src.Time.Format(time.RFC3339), src.Value, b, dst.Time.Format(time.RFC3339), dst.Value)
		}

		j, err := api.JSONEncode(ctx, src, opts...)
		require.NoError(t, err)
		var dstJSON hunt22Stamped
		require.NoError(t, api.JSONDecode(ctx, j, &dstJSON, opts...))
		if !src.Time.Equal(dstJSON.Time) {
			t.Errorf("JSON form (validation=%v): encoded %s (value %d) as %s, decoded %s (value %d)",
				validation, src.Time.Format(time.RFC3339), src.Value, j, dstJSON.Time.Format(time.RFC3339), dstJSON.Value)
		}
	}
}

func TestRegressionAudit22EmbeddedBigIntIsSilentlyDropped(t *testing.T) {
	api := serix.NewAPI()
	ctx := context.Background()

	src := hunt22Amount{Int: big.NewInt(1234567), Value: 7}
	b, err := api.Encode(ctx, src)
	require.NoError(t, err) // (refusing the type would be fine)

	var dst hunt22Amount
	n, err := api.Decode(ctx, b, &dst)
	require.NoError(t, err)
	require.Equal(t, len(b), n)
	if dst.Int == nil || src.Int.Cmp(dst.Int) != 0 {
		t.Errorf("binary form: encoded %s (value %d) as %x, decoded %s (value %d)", src.Int, src.Value, b, dst.Int, dst.Value)
	}
}

// control: as a named field the time stamp is part of both forms
func TestRegressionAudit22ControlNamedField(t *testing.T) {
	api := serix.NewAPI()
	ctx := context.Background()

	src := hunt22StampedNamed{Time: time.Unix(1700000000, 0).UTC(), Value: 7}
	b, err := api.Encode(ctx, src)
	require.NoError(t, err)
	require.Len(t, b, 9)
	var dst hunt22StampedNamed
	_, err = api.Decode(ctx, b, &dst)
	require.NoError(t, err)
	require.True(t, src.Time.Equal(dst.Time))

	j, err := api.JSONEncode(ctx, src)
	require.NoError(t, err)
	var dstJSON hunt22StampedNamed
	require.NoError(t, api.JSONDecode(ctx, j, &dstJSON))
	require.True(t, src.Time.Equal(dstJSON.Time))
}

package c20

import (
	"context"
	"encoding/json"
	"errors"
	"fmt"
	"math"
	"os"
	"runtime/debug"
	"sort"
	"sync"
	"sync/atomic"
	"testing"
	"time"

	"github.com/iotaledger/hive.go/app/daemon"
	"pgregory.net/rapid"
	"verifharness/internal/ctl"
	"verifharness/internal/stats"
)

const checkOrder = "shutdown_order"

// small orders with ties, negatives and gaps plus the extremes callers use as "always last" / "always first" markers
var orderPool = []int{-2, -1, 0, 0, 1, 1, 3, 7, -2, -1, 0, 1, 3, math.MinInt, math.MinInt + 1, math.MaxInt, math.MaxInt - 1}

// wspec is the drawn description of one background worker.
type wspec struct {
	Name      string `json:"name"`
	Order     int    `json:"order"`
	Explicit0 bool   `json:"explicit0,omitempty"` // pass the order argument even when it is 0 (otherwise it is omitted)
	When      string `json:"when"`                // pre (before Start) | run (while the daemon is running)
	Beh       string `json:"beh"`                 // hold | immediate | early | early_rereg | exit_in_shutdown
	ReOrder   int    `json:"reorder,omitempty"`   // early_rereg: order of the re-registered worker
	ReBeh     string `json:"rebeh,omitempty"`     // early_rereg: hold | immediate
	ExitAt    int    `json:"exit_at,omitempty"`   // exit_in_shutdown: index of the group during whose hold the worker leaves
}

// racer is a BackgroundWorker call that races with the shutdown.
type racer struct {
	Name  string `json:"name"`
	Order int    `json:"order"`
	// free: called concurrently with the shutdown callers, no hook;
	// hook_before: parked between the stopped-check and the lock, released right before the shutdown callers start;
	// hook_group: released while group Group (modulo) is cancelled and held; hook_after: released after shutdown completed.
	Phase string `json:"phase"`
	Group int    `json:"group,omitempty"`
}

type scenario struct {
	Workers    []wspec  `json:"workers"`
	StartMode  string   `json:"start"`   // start | run | never
	Callers    []string `json:"callers"` // saw (ShutdownAndWait) | async (Shutdown), all launched concurrently
	DupAttempt bool     `json:"dup,omitempty"`
	BusyName   bool     `json:"busyname,omitempty"`
	Racers     []racer  `json:"racers,omitempty"`
	// WithKnown is obsolete (kept so that stored replays still parse): it used to select whether registrations into a
	// drained order - the signature of the former known finding KF-C20-1, fixed in /repo by 90c8b2e - were performed.
	// They always are now, and a panic of Run is a violation like any other.
	WithKnown bool `json:"with_known,omitempty"`
}

func genScenario(t *rapid.T) scenario {
	var sc scenario
	sc.StartMode = rapid.SampledFrom([]string{"start", "start", "start", "run", "run", "never"}).Draw(t, "start")
	n := rapid.IntRange(1, 8).Draw(t, "workers")
	for i := 0; i < n; i++ {
		w := wspec{Name: fmt.Sprintf("w%d", i), Order: rapid.SampledFrom(orderPool).Draw(t, "order")}
		if w.Order == 0 {
			w.Explicit0 = rapid.Bool().Draw(t, "explicit0")
		}
		w.When = rapid.SampledFrom([]string{"pre", "pre", "run"}).Draw(t, "when")
		w.Beh = rapid.SampledFrom([]string{"hold", "hold", "hold", "hold", "immediate", "immediate", "immediate", "early", "early_rereg", "exit_in_shutdown"}).Draw(t, "beh")
		if sc.StartMode == "never" {
			w.When, w.Beh = "pre", "immediate"
		}
		if w.Beh == "early_rereg" {
			w.ReOrder = rapid.SampledFrom(orderPool).Draw(t, "reorder")
			w.ReBeh = rapid.SampledFrom([]string{"hold", "immediate"}).Draw(t, "rebeh")
		}
		if w.Beh == "exit_in_shutdown" {
			w.ExitAt = rapid.IntRange(0, 3).Draw(t, "exitat")
		}
		sc.Workers = append(sc.Workers, w)
	}
	nc := rapid.IntRange(1, 3).Draw(t, "callers")
	for i := 0; i < nc; i++ {
		sc.Callers = append(sc.Callers, rapid.SampledFrom([]string{"saw", "saw", "async"}).Draw(t, "caller"))
	}
	sc.DupAttempt = rapid.Bool().Draw(t, "dup")
	sc.BusyName = rapid.Bool().Draw(t, "busy")
	if sc.StartMode != "never" {
		nr := rapid.SampledFrom([]int{0, 0, 1, 1, 2}).Draw(t, "racers")
		for i := 0; i < nr; i++ {
			sc.Racers = append(sc.Racers, racer{Name: fmt.Sprintf("r%d", i), Order: rapid.SampledFrom(orderPool).Draw(t, "rorder"),
				Phase: rapid.SampledFrom([]string{"free", "hook_before", "hook_group", "hook_group", "hook_after"}).Draw(t, "phase"),
				Group: rapid.IntRange(0, 3).Draw(t, "rgroup")})
		}
	}

	return sc
}

// winst is one live worker (one handler instance) together with its logical stamps.
type winst struct {
	name     string
	order    int
	hold     bool
	exitAt   int // >=0: leaves on its own while that group is held during the shutdown
	started  chan struct{}
	quit     chan struct{}
	release  chan struct{}
	runs     atomic.Int32
	seen     atomic.Int64
	returned atomic.Int64
	relOnce  sync.Once
	quitOnce sync.Once
}

func (w *winst) doRelease() { w.relOnce.Do(func() { close(w.release) }) }
func (w *winst) doQuit()    { w.quitOnce.Do(func() { close(w.quit) }) }

func newInst(name string, order int, hold bool) *winst {
	return &winst{name: name, order: order, hold: hold, exitAt: -1, started: make(chan struct{}), quit: make(chan struct{}), release: make(chan struct{})}
}

func (w *winst) handler(clk *ctl.Clock) daemon.WorkerFunc {
	return func(ctx context.Context) {
		if w.runs.Add(1) == 1 {
			close(w.started)
		}
		select {
		case <-ctx.Done():
			w.seen.Store(clk.Tick())
			if w.hold {
				<-w.release
			}
		case <-w.quit:
		}
		// written before the handler returns: happens-before the daemon's WaitGroup.Done, the Wait of stopWorkers and
		// therefore before the cancellation of any worker with a lower order
		w.returned.Store(clk.Tick())
	}
}

// ---- hook dispatch (build tag verif): parks selected BackgroundWorker calls between the stopped-check and the lock ----

type hookKey struct {
	d    *daemon.OrderedDaemon
	name string
}

type hookGate struct {
	arrived chan struct{}
	proceed chan struct{}
}

var hookGates sync.Map // hookKey -> *hookGate

func init() {
	daemon.VerifHookBackgroundWorker = func(d *daemon.OrderedDaemon, name string) {
		if g, ok := hookGates.Load(hookKey{d, name}); ok {
			gate := g.(*hookGate)
			close(gate.arrived)
			<-gate.proceed
		}
	}
}

type racerRun struct {
	spec     racer
	inst     *winst
	gate     *hookGate
	done     chan struct{}
	err      error
	panicked any
	released bool
}

func orderArgs(order int, explicit0 bool) []int {
	if order != 0 || explicit0 {
		return []int{order}
	}

	return nil
}

func TestShutdownOrder(t *testing.T) {
	stats.Rule(checkOrder, "rapid draws 1..8 workers with orders from {-2,-1,0,0,1,1,3,7} registered before Start or while running, behaviours hold-until-released / return on cancel / finish early / finish early and re-register (possibly another order) / leave on their own during the shutdown; Start, Run in its own goroutine or never started (in half of the Run scenarios registrations into a drained order - the signature of KF-C20-1 - are performed and only Run's WaitGroup panic itself is set aside, in the other half they are skipped and counted); 1..3 concurrent ShutdownAndWait/Shutdown callers; duplicate and busy-name registrations; 0..2 BackgroundWorker calls racing with the shutdown (free-running or parked by the verif hook between the stopped-check and the lock and released before / during a held group / after the shutdown). The controller walks the order groups from high to low, holding each group until all its workers saw the cancel. Oracle on logical stamps. Distinct by the scenario JSON. Non-trivial = >=3 distinct orders with a tie and a held worker at shutdown, or an early finisher / re-registration before the shutdown")
	rapid.Check(t, func(rt *rapid.T) {
		sc := genScenario(rt)
		runScenario(rt, sc)
	})
}

type fataler interface {
	Fatalf(format string, args ...any)
}

func runScenario(t fataler, sc scenario) {
	labels := map[string]bool{}
	nontrivial := false
	var failure string
	done := make(chan struct{})
	go func() {
		defer close(done)
		defer func() {
			if p := recover(); p != nil {
				failure = fmt.Sprintf("panic in the controller goroutine (inside a daemon call): %v\n%s", p, debug.Stack())
			}
		}()
		failure = execScenario(sc, labels, &nontrivial)
	}()
	if !ctl.WaitChan(done, 3*ctl.HangTimeout) {
		failure = "hang: scenario controller did not finish\n" + ctl.Dump()
	}
	js, _ := json.Marshal(sc)
	if failure != "" {
		if len(failure) > 6000 {
			failure = failure[:6000]
		}
		stats.Violation(checkOrder, map[string]any{"scenario": sc, "failure": failure})
		t.Fatalf("%s: %s\nscenario: %s", checkOrder, failure, js)
	}
	var ls []string
	for l := range labels {
		ls = append(ls, l)
	}
	stats.Case(checkOrder, nontrivial, string(js), func() any { return sc }, ls...)
}

// execScenario runs one scenario. (Registrations into an order whose workers have all finished while Run is waiting -
// the signature of the former known finding KF-C20-1 - are performed like any other; label registration_into_drained_order.)
func execScenario(sc scenario, labels map[string]bool, nontrivial *bool) (failure string) {
	clk := &ctl.Clock{}
	d := daemon.New()
	var runPanic atomic.Value
	everRan := map[int]bool{}
	var (
		all      []*winst // every handler instance ever registered successfully
		running  []*winst // model: instances that are running now
		racers   []*racerRun
		sawRet   []*atomic.Int64 // return stamps of the ShutdownAndWait callers
		runRet   atomic.Int64    // return stamp of Run
		atShut   []*winst        // instances running when the shutdown was initiated (plus accepted racers)
		shutMu   sync.Mutex
		anchored bool
	)
	defer func() {
		// never leave goroutines behind, whatever happened
		for _, r := range racers {
			if r.gate != nil && !r.released {
				r.released = true
				close(r.gate.proceed)
			}
			if r.gate != nil {
				hookGates.Delete(hookKey{d, r.spec.Name})
			}
		}
		for _, w := range all {
			w.doRelease()
			w.doQuit()
		}
		for _, r := range racers {
			r.inst.doRelease()
			r.inst.doQuit()
		}
		if failure != "" {
			go d.ShutdownAndWait()
		}
	}()
	drained := func(order int) bool {
		if sc.StartMode != "run" || !everRan[order] {
			return false
		}
		for _, w := range running {
			if w.order == order {
				return false
			}
		}

		return true
	}
	noteDrained := func(order int) {
		if drained(order) {
			labels["registration_into_drained_order"] = true
		}
	}

	// invariant checked inside every wait loop: nobody with a lower order has seen its cancel while a worker with a
	// higher order (running at shutdown) has not returned; no waiting caller has returned while such a worker runs.
	invariant := func() string {
		if p, _ := runPanic.Load().(string); p != "" {
			return "Run panicked: " + p
		}
		shutMu.Lock()
		defer shutMu.Unlock()
		for _, lo := range atShut {
			s := lo.seen.Load() // read the later event first (see oracle note in REPORT.md)
			if s == 0 {
				continue
			}
			for _, hi := range atShut {
				if hi.order > lo.order && hi.runs.Load() > 0 && hi.returned.Load() == 0 {
					return fmt.Sprintf("worker %s (order %d) saw its cancel while worker %s (order %d) had not returned", lo.name, lo.order, hi.name, hi.order)
				}
			}
		}
		for i, sr := range sawRet {
			if sr.Load() == 0 {
				continue
			}
			for _, w := range atShut {
				if w.runs.Load() > 0 && w.returned.Load() == 0 {
					return fmt.Sprintf("ShutdownAndWait (caller %d) returned while started worker %s (order %d) had not returned", i, w.name, w.order)
				}
			}
		}
		if anchored && runRet.Load() != 0 {
			for _, w := range atShut {
				if w.runs.Load() > 0 && w.returned.Load() == 0 {
					return fmt.Sprintf("Run returned while started worker %s (order %d) had not returned", w.name, w.order)
				}
			}
		}

		return ""
	}
	waitFor := func(what string, cond func() bool) string {
		deadline := time.Now().Add(ctl.HangTimeout)
		for i := 0; ; i++ {
			if f := invariant(); f != "" {
				return f
			}
			if cond() {
				return ""
			}
			if time.Now().After(deadline) {
				return "hang: " + what + " did not happen within " + ctl.HangTimeout.String() + "\n" + ctl.Dump()
			}
			if i < 20 {
				time.Sleep(20 * time.Microsecond)
			} else {
				time.Sleep(200 * time.Microsecond)
			}
		}
	}
	closed := func(ch chan struct{}) func() bool {
		return func() bool {
			select {
			case <-ch:
				return true
			default:
				return false
			}
		}
	}
	checkRunning := func(at string) string {
		if os.Getenv("C20_SKIP_LIST_CHECK") != "" {
			return "" // development knob: shows that the stamp oracle alone catches a mutant (see MUTANTS.md)
		}
		got := d.GetRunningBackgroundWorkers()
		want := map[string]int{}
		for _, w := range running {
			want[w.name] = w.order
		}
		if len(got) != len(want) {
			return fmt.Sprintf("%s: GetRunningBackgroundWorkers = %v, model has %d running workers %v", at, got, len(want), want)
		}
		prev := 0
		for i, n := range got {
			o, ok := want[n]
			if !ok {
				return fmt.Sprintf("%s: GetRunningBackgroundWorkers = %v contains %q which is not running in the model %v", at, got, n, want)
			}
			if i > 0 && o < prev {
				return fmt.Sprintf("%s: GetRunningBackgroundWorkers = %v is not ascending by order (model %v)", at, got, want)
			}
			prev = o
			delete(want, n)
		}

		return ""
	}
	register := func(name string, order int, explicit0, hold bool) (*winst, error) {
		w := newInst(name, order, hold)
		err := d.BackgroundWorker(name, w.handler(clk), orderArgs(order, explicit0)...)
		if err == nil {
			all = append(all, w)
		}

		return w, err
	}

	// ---- 1. registrations before Start ----
	byName := map[string]*winst{}
	for _, ws := range sc.Workers {
		if ws.When != "pre" {
			continue
		}
		w, err := register(ws.Name, ws.Order, ws.Explicit0, ws.Beh == "hold")
		if err != nil {
			return fmt.Sprintf("BackgroundWorker(%s) before Start failed: %v", ws.Name, err)
		}
		byName[ws.Name] = w
		if sc.DupAttempt {
			dup := newInst(ws.Name, ws.Order, false)
			if err := d.BackgroundWorker(ws.Name, dup.handler(clk), 5); !errors.Is(err, daemon.ErrDuplicateBackgroundWorker) {
				return fmt.Sprintf("registering %s twice before Start returned %v, want ErrDuplicateBackgroundWorker", ws.Name, err)
			}
			labels["duplicate_refused"] = true
		}
	}
	if f := checkRunning("before Start"); f != "" {
		return f
	}

	// ---- 2. start ----
	pre := len(all)
	switch sc.StartMode {
	case "start":
		d.Start()
	case "run":
		go func() {
			defer func() {
				if p := recover(); p != nil {
					runPanic.Store(fmt.Sprint(p))
				}
			}()
			d.Run()
			runRet.Store(clk.Tick())
		}()
		if f := waitFor("daemon running after Run", d.IsRunning); f != "" {
			return f
		}
	}
	labels["start_"+sc.StartMode] = true
	if sc.StartMode != "never" {
		for _, w := range all[:pre] {
			if f := waitFor("start of pre-registered worker "+w.name, closed(w.started)); f != "" {
				return f
			}
			running = append(running, w)
			everRan[w.order] = true
		}
		if f := checkRunning("after Start"); f != "" {
			return f
		}
	}

	// ---- 3. registrations while running ----
	if sc.StartMode != "never" {
		for _, ws := range sc.Workers {
			if ws.When != "run" {
				continue
			}
			w, err := register(ws.Name, ws.Order, ws.Explicit0, ws.Beh == "hold")
			if err != nil {
				return fmt.Sprintf("BackgroundWorker(%s) on the running daemon failed: %v", ws.Name, err)
			}
			byName[ws.Name] = w
			if f := waitFor("start of worker "+w.name, closed(w.started)); f != "" {
				return f
			}
			running = append(running, w)
			everRan[w.order] = true
			labels["registered_while_running"] = true
		}
		if sc.BusyName && len(running) > 0 {
			busy := newInst(running[0].name, 3, false)
			if err := d.BackgroundWorker(busy.name, busy.handler(clk), 3); !errors.Is(err, daemon.ErrExistingBackgroundWorkerStillRunning) {
				return fmt.Sprintf("registering the running name %s returned %v, want ErrExistingBackgroundWorkerStillRunning", busy.name, err)
			}
			labels["busy_name_refused"] = true
		}
		if f := checkRunning("after registrations"); f != "" {
			return f
		}

		// ---- 4. early finishers and re-registrations ----
		early := false
		for _, ws := range sc.Workers {
			w := byName[ws.Name]
			switch ws.Beh {
			case "early", "early_rereg":
				early = true
				w.doQuit()
				if f := waitFor("return of early finisher "+w.name, func() bool { return w.returned.Load() != 0 }); f != "" {
					return f
				}
				for i, r := range running {
					if r == w {
						running = append(running[:i:i], running[i+1:]...)
						break
					}
				}
				// the daemon removes a finished worker right after its handler returned
				if f := waitFor("cleanup of finished worker "+w.name, func() bool {
					for _, n := range d.GetRunningBackgroundWorkers() {
						if n == w.name {
							return false
						}
					}

					return true
				}); f != "" {
					return f
				}
				labels["early_finisher"] = true
				if ws.Beh == "early_rereg" {
					noteDrained(ws.ReOrder)
					nw, err := register(ws.Name, ws.ReOrder, false, ws.ReBeh == "hold")
					if err != nil {
						return fmt.Sprintf("re-registering the finished worker %s failed: %v", ws.Name, err)
					}
					if f := waitFor("start of re-registered worker "+nw.name, closed(nw.started)); f != "" {
						return f
					}
					running = append(running, nw)
					everRan[nw.order] = true
					labels["re_registered"] = true
					if ws.ReOrder != ws.Order {
						labels["re_registered_other_order"] = true
					}
				}
			case "exit_in_shutdown":
				w.exitAt = ws.ExitAt
			}
		}
		if f := checkRunning("before shutdown"); f != "" {
			return f
		}
		*nontrivial = early
	}

	// ---- 5. shutdown ----
	shutMu.Lock()
	atShut = append(atShut, running...)
	shutMu.Unlock()
	orderSet := map[int]int{}
	held := false
	for _, w := range running {
		orderSet[w.order]++
		held = held || w.hold
	}
	tie := false
	var orders []int
	for o, c := range orderSet {
		orders = append(orders, o)
		tie = tie || c > 1
	}
	sort.Sort(sort.Reverse(sort.IntSlice(orders)))
	if len(orders) >= 3 && tie && held {
		*nontrivial = true
		labels["three_orders_tie_held"] = true
	}
	for _, w := range all[:pre] {
		// Run took its WaitGroup snapshot while this worker was running; it cannot return before this worker does
		if sc.StartMode == "run" && w.exitAt < 0 {
			for _, r := range running {
				anchored = anchored || r == w
			}
		}
	}

	// racers that are parked by the hook start now (they pass the stopped-check before the shutdown begins)
	launchRacer := func(r *racerRun) {
		go func() {
			defer close(r.done)
			defer func() { r.panicked = recover() }()
			r.err = d.BackgroundWorker(r.spec.Name, r.inst.handler(clk), orderArgs(r.spec.Order, false)...)
		}()
	}
	for _, rs := range sc.Racers {
		noteDrained(rs.Order)
		r := &racerRun{spec: rs, inst: newInst(rs.Name, rs.Order, false), done: make(chan struct{})}
		racers = append(racers, r)
		if rs.Phase != "free" {
			r.gate = &hookGate{arrived: make(chan struct{}), proceed: make(chan struct{})}
			hookGates.Store(hookKey{d, rs.Name}, r.gate)
			launchRacer(r)
			if f := waitFor("racer "+rs.Name+" reaching the hook", closed(r.gate.arrived)); f != "" {
				return f
			}
		}
		labels["racer_"+rs.Phase] = true
	}
	releaseRacer := func(r *racerRun) string {
		if r.released {
			return ""
		}
		r.released = true
		// an accepted racer is a started worker like any other: it takes part in the order and return rules
		shutMu.Lock()
		atShut = append(atShut, r.inst)
		shutMu.Unlock()
		close(r.gate.proceed)

		return waitFor("return of the racing BackgroundWorker("+r.spec.Name+") call", closed(r.done))
	}
	for _, r := range racers {
		switch r.spec.Phase {
		case "hook_before":
			r.released = true
			shutMu.Lock()
			atShut = append(atShut, r.inst)
			shutMu.Unlock()
			close(r.gate.proceed)
		case "free":
			shutMu.Lock()
			atShut = append(atShut, r.inst)
			shutMu.Unlock()
			launchRacer(r)
		}
	}
	callersDone := make([]chan struct{}, len(sc.Callers))
	var lateInsts []*winst
	var lateFailure atomic.Value
	for i, c := range sc.Callers {
		callersDone[i] = make(chan struct{})
		labels["caller_"+c] = true
		if c == "saw" {
			st := new(atomic.Int64)
			sawRet = append(sawRet, st)
			go func(ch chan struct{}) {
				d.ShutdownAndWait()
				st.Store(clk.Tick())
				close(ch)
			}(callersDone[i])
		} else {
			late := newInst(fmt.Sprintf("late%d", i), 1, false)
			lateInsts = append(lateInsts, late)
			go func(ch chan struct{}, i int) {
				d.Shutdown()
				// "after shutdown no worker can be added or started": Shutdown does not wait for the workers, the daemon is
				// stopped all the same when the call has returned
				if err := d.BackgroundWorker(late.name, late.handler(clk), late.order); !errors.Is(err, daemon.ErrDaemonAlreadyStopped) {
					lateFailure.CompareAndSwap(nil, fmt.Sprintf("BackgroundWorker right after Shutdown() returned (caller %d) returned %v, want ErrDaemonAlreadyStopped", i, err))
				}
				close(ch)
			}(callersDone[i], i)
		}
	}
	if len(sc.Callers) > 1 {
		labels["concurrent_callers"] = true
	}

	// ---- 6. walk the groups from the highest order to the lowest ----
	if sc.StartMode != "never" {
		for gi, o := range orders {
			var group []*winst
			for _, w := range running {
				if w.order == o && w.returned.Load() == 0 {
					group = append(group, w)
				}
			}
			for _, w := range group {
				w := w
				// equal orders are cancelled together: every member sees its cancel while the others are still held
				if f := waitFor(fmt.Sprintf("cancel of worker %s (order %d, group %d)", w.name, o, gi), func() bool { return w.seen.Load() != 0 || w.returned.Load() != 0 }); f != "" {
					return f
				}
			}
			// grace period while the group is held: a premature cancel of a lower order or a premature return of a
			// waiting caller shows up in the stamps (detection aid only)
			ctl.Settle(300 * time.Microsecond)
			if f := invariant(); f != "" {
				return f
			}
			for _, w := range running {
				if w.exitAt >= 0 && w.exitAt%len(orders) == gi && w.order < o && w.returned.Load() == 0 {
					w.doQuit()
					if f := waitFor("return of worker "+w.name+" leaving during the shutdown", func() bool { return w.returned.Load() != 0 }); f != "" {
						return f
					}
					labels["left_during_shutdown"] = true
				}
			}
			for _, r := range racers {
				if r.spec.Phase == "hook_group" && r.spec.Group%len(orders) == gi {
					if f := releaseRacer(r); f != "" {
						return f
					}
				}
			}
			for _, w := range group {
				w.doRelease()
			}
			for _, w := range group {
				w := w
				if f := waitFor("return of released worker "+w.name, func() bool { return w.returned.Load() != 0 }); f != "" {
					return f
				}
			}
		}
	}
	for _, w := range running {
		w.doQuit() // exit_in_shutdown workers that were not asked to leave are ordinary immediate workers
	}

	// ---- 7. completion ----
	for i, ch := range callersDone {
		if f := waitFor(fmt.Sprintf("return of shutdown caller %d (%s)", i, sc.Callers[i]), closed(ch)); f != "" {
			return f
		}
	}
	if f := lateFailure.Load(); f != nil {
		return f.(string)
	}
	if len(lateInsts) > 0 {
		labels["add_right_after_async_shutdown"] = true
	}
	final := new(atomic.Int64)
	finalDone := make(chan struct{})
	go func() {
		d.ShutdownAndWait()
		final.Store(clk.Tick())
		close(finalDone)
	}()
	if f := waitFor("return of the final ShutdownAndWait", closed(finalDone)); f != "" {
		return f
	}
	shutMu.Lock()
	sawRet = append(sawRet, final)
	shutMu.Unlock()
	for _, r := range racers {
		if r.gate != nil && !r.released {
			if f := releaseRacer(r); f != "" {
				return f
			}
		} else if f := waitFor("return of the racing BackgroundWorker("+r.spec.Name+") call", closed(r.done)); f != "" {
			return f
		}
	}
	if anchored {
		if f := waitFor("return of Run after the shutdown completed", func() bool { return runRet.Load() != 0 }); f != "" {
			return f
		}
		labels["run_anchored"] = true
	}

	// ---- 8. after the shutdown ----
	if !d.IsStopped() || d.IsRunning() {
		return fmt.Sprintf("after ShutdownAndWait: IsStopped=%v IsRunning=%v", d.IsStopped(), d.IsRunning())
	}
	post := newInst("post", 1, false)
	if err := d.BackgroundWorker("post", post.handler(clk), 1); !errors.Is(err, daemon.ErrDaemonAlreadyStopped) {
		return fmt.Sprintf("BackgroundWorker after shutdown returned %v, want ErrDaemonAlreadyStopped", err)
	}
	d.Start()
	if got := d.GetRunningBackgroundWorkers(); len(got) != 0 {
		return fmt.Sprintf("GetRunningBackgroundWorkers after shutdown = %v", got)
	}
	ctl.Settle(200 * time.Microsecond)
	if post.runs.Load() != 0 {
		return "a worker added after the shutdown was started"
	}
	for _, late := range lateInsts {
		if late.runs.Load() != 0 {
			return "a worker added right after Shutdown() returned was started"
		}
	}
	if sc.StartMode == "never" {
		for _, w := range all {
			if w.runs.Load() != 0 {
				return fmt.Sprintf("worker %s of a daemon that was shut down before Start was started", w.name)
			}
		}
	}

	// ---- 9. oracle on the stamps ----
	for _, r := range racers {
		switch {
		case r.panicked != nil:
			return fmt.Sprintf("BackgroundWorker(%s) racing with the shutdown (%s) panicked: %v", r.spec.Name, r.spec.Phase, r.panicked)
		case r.err == nil:
			labels["racer_accepted"] = true
			// accepted = added and started: it must have been cancelled and awaited before any ShutdownAndWait returned
			ret := r.inst.returned.Load()
			if ret == 0 {
				return fmt.Sprintf("BackgroundWorker(%s) racing with the shutdown (%s) was accepted, but the worker had not returned (runs=%d, cancel seen=%v) when ShutdownAndWait returned", r.spec.Name, r.spec.Phase, r.inst.runs.Load(), r.inst.seen.Load() != 0)
			}
		case errors.Is(r.err, daemon.ErrDaemonAlreadyStopped):
			labels["racer_refused"] = true
			if r.inst.runs.Load() != 0 {
				return fmt.Sprintf("BackgroundWorker(%s) was refused but its handler ran", r.spec.Name)
			}
		default:
			return fmt.Sprintf("BackgroundWorker(%s) racing with the shutdown returned %v", r.spec.Name, r.err)
		}
	}
	for _, w := range atShut {
		if w.runs.Load() > 1 {
			return fmt.Sprintf("handler of %s ran %d times", w.name, w.runs.Load())
		}
	}
	for _, lo := range atShut {
		s := lo.seen.Load()
		if s == 0 {
			continue
		}
		for _, hi := range atShut {
			if hi.order > lo.order && hi.runs.Load() > 0 && hi.returned.Load() > s {
				return fmt.Sprintf("worker %s (order %d) saw its cancel (stamp %d) before worker %s (order %d) returned (stamp %d)", lo.name, lo.order, s, hi.name, hi.order, hi.returned.Load())
			}
		}
	}
	for i, sr := range sawRet {
		for _, w := range all {
			if w.runs.Load() > 0 && (w.returned.Load() == 0 || w.returned.Load() > sr.Load()) {
				return fmt.Sprintf("ShutdownAndWait (caller %d) returned (stamp %d) before started worker %s returned (stamp %d)", i, sr.Load(), w.name, w.returned.Load())
			}
		}
		for _, r := range racers {
			if r.err == nil && r.inst.returned.Load() > sr.Load() {
				return fmt.Sprintf("ShutdownAndWait (caller %d) returned (stamp %d) before the accepted racing worker %s returned (stamp %d)", i, sr.Load(), r.spec.Name, r.inst.returned.Load())
			}
		}
	}
	if anchored {
		for _, w := range atShut {
			if w.runs.Load() > 0 && w.returned.Load() > runRet.Load() {
				return fmt.Sprintf("Run returned (stamp %d) before started worker %s returned (stamp %d)", runRet.Load(), w.name, w.returned.Load())
			}
		}
	}

	return invariant()
}

package c12

import (
	"fmt"
	"testing"

	"github.com/iotaledger/hive.go/ds/queue"
	"github.com/iotaledger/hive.go/ds/ringbuffer"
	"github.com/iotaledger/hive.go/ds/stack"
	"pgregory.net/rapid"
	"verifharness/internal/stats"
)

// TestQueue: ds/queue is a bounded FIFO: Offer drops when full, ForceOffer evicts and reports the oldest.
func TestQueue(t *testing.T) {
	const check = "queue"
	stats.Rule(check, "rapid state machine over queue.Queue[int], capacity 1..5, unique increasing elements; Offer/ForceOffer/Poll/Size/Capacity vs a bounded FIFO slice; non-trivial = the write index wrapped at least 3 times (accepted writes >= 3*capacity) with at least one dropped Offer and one evicting ForceOffer; distinct by (capacity, operation list)")
	rapid.Check(t, func(rt *rapid.T) {
		capacity := rapid.IntRange(1, 5).Draw(rt, "capacity")
		h := newHist(check, fmt.Sprintf("capacity=%d", capacity))
		defer h.guard(rt)
		q := queue.New[int](capacity)
		var model []int
		next, writes := 1, 0

		acts := weighted{}
		acts.add("Offer", 4, func(rt *rapid.T) {
			v := next
			next++
			ok := q.Offer(v)
			h.op("Offer(%d)=%v", v, ok)
			want := len(model) < capacity
			if want {
				model = append(model, v)
				writes++
			} else {
				h.label("offer_dropped")
			}
			if ok != want {
				h.fail(rt, "Offer(%d) = %v with %d/%d queued, want %v", v, ok, len(model), capacity, want)
			}
		})
		acts.add("ForceOffer", 4, func(rt *rapid.T) {
			v := next
			next++
			removed, was := q.ForceOffer(v)
			h.op("ForceOffer(%d)=%d,%v", v, removed, was)
			wantRemoved, wantWas := 0, false
			if len(model) == capacity {
				wantRemoved, wantWas = model[0], true
				model = model[1:]
				h.label("forceoffer_evicted")
			}
			model = append(model, v)
			writes++
			if removed != wantRemoved || was != wantWas {
				h.fail(rt, "ForceOffer(%d) = (%d,%v), want (%d,%v)", v, removed, was, wantRemoved, wantWas)
			}
		})
		acts.add("Poll", 3, func(rt *rapid.T) {
			v, ok := q.Poll()
			h.op("Poll()=%d,%v", v, ok)
			if len(model) == 0 {
				if ok || v != 0 {
					h.fail(rt, "Poll on empty queue = (%d,%v)", v, ok)
				}
				h.label("poll_empty")
				return
			}
			want := model[0]
			model = model[1:]
			if !ok || v != want {
				h.fail(rt, "Poll = (%d,%v), want (%d,true)", v, ok, want)
			}
		})
		acts[""] = func(rt *rapid.T) {
			if sz := q.Size(); sz != len(model) {
				h.fail(rt, "Size = %d, model %v", sz, model)
			}
			if c := q.Capacity(); c != capacity {
				h.fail(rt, "Capacity = %d, want %d", c, capacity)
			}
		}
		rt.Repeat(acts)
		// drain in FIFO order
		for _, want := range model {
			v, ok := q.Poll()
			h.op("drain Poll()=%d,%v", v, ok)
			if !ok || v != want {
				h.fail(rt, "draining Poll = (%d,%v), want (%d,true)", v, ok, want)
			}
		}
		if v, ok := q.Poll(); ok || v != 0 {
			h.op("drain Poll()=%d,%v", v, ok)
			h.fail(rt, "Poll after draining = (%d,%v), want (0,false)", v, ok)
		}
		if writes >= 3*capacity {
			h.label("wraps>=3")
		}
		h.done(writes >= 3*capacity && h.has("offer_dropped") && h.has("forceoffer_evicted"))
	})
}

// TestRingBuffer: ds/ringbuffer keeps the last `capacity` added elements, ToSlice lists them newest first.
func TestRingBuffer(t *testing.T) {
	const check = "ringbuffer"
	stats.Rule(check, "rapid state machine over ringbuffer.RingBuffer[int], capacity 1..5, unique increasing elements; Add (always true) and ToSlice (= last min(adds,capacity) adds, newest first) compared after every step; non-trivial = the buffer wrapped at least 3 times (adds >= 3*capacity); distinct by (capacity, operation list)")
	rapid.Check(t, func(rt *rapid.T) {
		capacity := rapid.IntRange(1, 5).Draw(rt, "capacity")
		h := newHist(check, fmt.Sprintf("capacity=%d", capacity))
		defer h.guard(rt)
		r := ringbuffer.NewRingBuffer[int](capacity)
		var model []int // newest first
		next, adds := 1, 0

		acts := weighted{}
		acts.add("Add", 3, func(rt *rapid.T) {
			n := rapid.IntRange(1, 3).Draw(rt, "burst")
			for i := 0; i < n; i++ {
				v := next
				next++
				ok := r.Add(v)
				h.op("Add(%d)=%v", v, ok)
				adds++
				model = append([]int{v}, model...)
				if len(model) > capacity {
					model = model[:capacity]
				}
				if !ok {
					h.fail(rt, "Add(%d) = false", v)
				}
			}
		})
		acts.add("ToSlice", 1, func(rt *rapid.T) {
			got := r.ToSlice()
			h.op("ToSlice()=%v", got)
			if !equalInts(got, model) {
				h.fail(rt, "ToSlice = %v, want %v (newest first)", got, model)
			}
		})
		acts[""] = func(rt *rapid.T) {
			if got := r.ToSlice(); !equalInts(got, model) {
				h.fail(rt, "ToSlice = %v, want %v (newest first)", got, model)
			}
		}
		rt.Repeat(acts)
		if adds >= 3*capacity {
			h.label("wraps>=3")
		}
		if adds > 0 && adds < capacity {
			h.label("never_full")
		}
		h.done(adds >= 3*capacity)
	})
}

// TestStack: ds/stack in the simple and the thread-safe flavour is a LIFO.
func TestStack(t *testing.T) {
	const check = "stack"
	stats.Rule(check, "rapid state machine over stack.New[int]() / New(false) / New(true); Push/Pop/Peek/Clear/Size/IsEmpty vs a LIFO slice; non-trivial = a Clear of a non-empty stack followed by a Pop that returned an element, plus a Pop on the empty stack; distinct by (flavour, operation list)")
	rapid.Check(t, func(rt *rapid.T) {
		flavour := rapid.SampledFrom([]string{"default", "simple", "threadsafe"}).Draw(rt, "flavour")
		h := newHist(check, flavour)
		defer h.guard(rt)
		var s stack.Stack[int]
		switch flavour {
		case "default":
			s = stack.New[int]()
		case "simple":
			s = stack.New[int](false)
		default:
			s = stack.New[int](true)
		}
		var model []int
		next := 1
		cleared, popAfterClear := false, false

		acts := weighted{}
		acts.add("Push", 5, func(rt *rapid.T) {
			v := next
			next++
			s.Push(v)
			h.op("Push(%d)", v)
			model = append(model, v)
		})
		acts.add("Pop", 4, func(rt *rapid.T) {
			v, ok := s.Pop()
			h.op("Pop()=%d,%v", v, ok)
			if len(model) == 0 {
				if ok || v != 0 {
					h.fail(rt, "Pop on empty stack = (%d,%v)", v, ok)
				}
				h.label("pop_empty")
				return
			}
			want := model[len(model)-1]
			model = model[:len(model)-1]
			if !ok || v != want {
				h.fail(rt, "Pop = (%d,%v), want (%d,true)", v, ok, want)
			}
			if cleared {
				popAfterClear = true
			}
		})
		acts.add("Peek", 2, func(rt *rapid.T) {
			v, ok := s.Peek()
			h.op("Peek()=%d,%v", v, ok)
			if len(model) == 0 {
				if ok || v != 0 {
					h.fail(rt, "Peek on empty stack = (%d,%v)", v, ok)
				}
				return
			}
			if want := model[len(model)-1]; !ok || v != want {
				h.fail(rt, "Peek = (%d,%v), want (%d,true)", v, ok, want)
			}
		})
		acts.add("Clear", 1, func(rt *rapid.T) {
			s.Clear()
			h.op("Clear()")
			if len(model) > 0 {
				cleared = true
				h.label("clear_nonempty")
			}
			model = nil
		})
		acts[""] = func(rt *rapid.T) {
			if sz := s.Size(); sz != len(model) {
				h.fail(rt, "Size = %d, model %v", sz, model)
			}
			if e := s.IsEmpty(); e != (len(model) == 0) {
				h.fail(rt, "IsEmpty = %v, model %v", e, model)
			}
		}
		rt.Repeat(acts)
		for i := len(model) - 1; i >= 0; i-- {
			v, ok := s.Pop()
			h.op("drain Pop()=%d,%v", v, ok)
			if !ok || v != model[i] {
				h.fail(rt, "draining Pop = (%d,%v), want (%d,true)", v, ok, model[i])
			}
		}
		h.done(cleared && popAfterClear && h.has("pop_empty"))
	})
}

package c05

import (
	"encoding/json"
	"errors"
	"fmt"
	"os"
	"strconv"
	"testing"
	"time"

	"github.com/iotaledger/hive.go/kvstore"
	"pgregory.net/rapid"
	"verifharness/internal/stats"
)

const (
	checkSmall = "linearizability"
	checkLarge = "linearizability_large_point_ops"
)

func isNotFound(err error) bool { return errors.Is(err, kvstore.ErrKeyNotFound) }

// judgeBudget bounds one porcupine search; running out of it is "unknown" = inconclusive for that case (counted),
// never a violation.
func judgeBudget() time.Duration {
	if s, err := strconv.Atoi(os.Getenv("C05_JUDGE_TIMEOUT_S")); err == nil && s > 0 {
		return time.Duration(s) * time.Second
	}
	if stats.Tier() == "thorough" {
		return 5 * time.Second
	}
	return 2 * time.Second
}

func sizeLabel(prefix string, n int, bounds ...int) string {
	lo := 0
	for _, b := range bounds {
		if n <= b {
			return fmt.Sprintf("%s:%d-%d", prefix, lo, b)
		}
		lo = b + 1
	}
	return fmt.Sprintf("%s:%d+", prefix, lo)
}

type failure struct {
	Kind    string         `json:"kind"` // not_linearizable | deadlock | unexpected_error
	Problem string         `json:"problem"`
	Program map[string]any `json:"program"`
	PerKey  bool           `json:"per_key_partitioned"`
	History []hop          `json:"history,omitempty"`
	Lines   []string       `json:"history_lines,omitempty"`
	Dump    string         `json:"goroutine_dump,omitempty"`
}

func runAndJudge(t *rapid.T, check string, p program, perKey bool) {
	t0 := time.Now()
	res := execute(p)
	stats.NoteAdd(check, "execute_ms_total(info)", time.Since(t0).Milliseconds())
	labels := []string{"stack:" + p.Stack, sizeLabel("goroutines", len(p.Gor), 2, 4, 8, 12, 16)}
	switch {
	case res.Hung:
		stats.Violation(check, failure{Kind: "deadlock", Problem: "program did not finish within " + fmt.Sprint(ctlHang()), Program: p.render(), PerKey: perKey, Dump: res.Dump})
		t.Fatalf("deadlock: program did not finish within %v\nprogram: %+v\n%s", ctlHang(), p.render(), res.Dump)
	case res.OpError != "":
		stats.Violation(check, failure{Kind: "unexpected_error", Problem: res.OpError, Program: p.render(), PerKey: perKey})
		t.Fatalf("an operation on an open store failed: %s\nprogram: %+v", res.OpError, p.render())
	}
	if perKey {
		res.Hist = finalAsGets(res.Hist)
	}
	ol, nontrivial := overlapLabels(res.Hist)
	labels = append(labels, ol...)
	labels = append(labels, sizeLabel("history_ops", len(res.Hist), 10, 20, 40, 70, 200))
	t1 := time.Now()
	v := judge(res.Hist, perKey, judgeBudget())
	stats.NoteAdd(check, "judge_ms_total(info)", time.Since(t1).Milliseconds())
	labels = append(labels, fmt.Sprintf("filler:%d", p.Filler))
	labels = append(labels, "judge:"+v.Result)
	stats.Case(check, nontrivial, p.key(), func() any { return p.render() }, labels...)
	switch v.Result {
	case "unknown":
		stats.NoteAdd(check, "porcupine_unknown_inconclusive_cases", 1)
	case "illegal":
		lines := make([]string, len(res.Hist))
		for i, h := range res.Hist {
			lines[i] = h.String()
		}
		stats.Violation(check, failure{Kind: "not_linearizable", Problem: v.Problem, Program: p.render(), PerKey: perKey, History: res.Hist, Lines: lines})
		t.Fatalf("history is not linearizable w.r.t. the ordered-map contract: %s\nprogram: %+v\nhistory:\n%s", v.Problem, p.render(), joinLines(lines))
	}
}

func joinLines(l []string) string {
	s := ""
	for _, x := range l {
		s += "  " + x + "\n"
	}
	return s
}

// rejudgeSaved re-judges histories saved in a replay file (VERIF_REPLAY_CASES, set by `bin/verif replay`): judging a
// recorded history is deterministic even though the schedule that produced it is not.
func rejudgeSaved(t *testing.T, check string) {
	path := os.Getenv("VERIF_REPLAY_CASES")
	if path == "" {
		return
	}
	raw, err := os.ReadFile(path)
	if err != nil {
		t.Logf("replay file: %v", err)
		return
	}
	var rp struct {
		Cases []struct {
			Check string  `json:"check"`
			Case  failure `json:"case"`
		} `json:"cases"`
	}
	if err := json.Unmarshal(raw, &rp); err != nil {
		t.Logf("replay file: %v", err)
		return
	}
	for _, c := range rp.Cases {
		if c.Check != check || len(c.Case.History) == 0 {
			continue
		}
		v := judge(c.Case.History, c.Case.PerKey, 0)
		t.Logf("re-judged saved history of %d operations: %s %s", len(c.Case.History), v.Result, v.Problem)
		// A saved history stays illegal for ever, also after the code was repaired, so by default the verdict is
		// only logged and the replay's outcome is that of re-executing the program; C05_REJUDGE_STRICT=1 makes the
		// saved witness itself fail the replay.
		if v.Result == "illegal" && os.Getenv("C05_REJUDGE_STRICT") == "1" {
			t.Errorf("saved history is not linearizable: %s", v.Problem)
		}
	}
}

func TestLinearizable(t *testing.T) {
	stats.Rule(checkSmall, "rapid draws a concurrent program: stack from the 5 wrapper stacks, 2-4 views (realms over {a,b}, len 0-2, duplicates and prefix-related realms frequent, "+
		"built by WithRealm or WithExtendedRealm), 2-6 keys over {a,b} len 0-2 so that realm||key collides between views, 2-16 goroutines x 3-12 operations (Get/Has/Set/Delete/"+
		"DeletePrefix/Clear/Iterate/IterateKeys with direction and stop, a third of them with a consumer that calls back into the view it iterates (Delete of an absent key + Has)/batches of 1-4 writes + Commit, optional Gosched), at most ~64 history operations; goroutines are released by a "+
		"spin barrier, every call is bracketed by a shared logical clock, every written value is unique; a final sequential read-back is appended. The history (a committed batch = "+
		"one write per key with the Commit interval) is judged by porcupine against the single-ordered-map model; whole package under -race; 20 s watchdog. "+
		"non-trivial = operations of two goroutines with intersecting intervals on one full key (at least one a write) or a prefix operation overlapping a write of a matching key "+
		"(measured from the history); distinct by program")
	rejudgeSaved(t, checkSmall)
	rapid.Check(t, func(rt *rapid.T) {
		p := genProgram(rt, 2, 16, 3, 12, 64, false)
		runAndJudge(rt, checkSmall, p, false)
	})
}

// TestLinearizableLargePointOps: long programs (16 goroutines x up to 40 point operations / batch writes) judged
// per full key (P-compositionality: a history of single-key operations is linearizable iff every per-key
// sub-history is).
func TestLinearizableLargePointOps(t *testing.T) {
	stats.Rule(checkLarge, "as linearizability, but 8-16 goroutines x 20-40 point operations (Get/Has/Set/Delete/batch writes), no prefix operations; judged by porcupine "+
		"partitioned per full key; non-trivial as above")
	rejudgeSaved(t, checkLarge)
	rapid.Check(t, func(rt *rapid.T) {
		p := genProgram(rt, 8, 16, 20, 40, 1<<20, true)
		runAndJudge(rt, checkLarge, p, true)
	})
}

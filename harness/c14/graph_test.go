package c14

import (
	"fmt"
	"strings"
	"sync"
	"testing"

	"github.com/iotaledger/hive.go/ds"
	"github.com/iotaledger/hive.go/ds/reactive"
	"pgregory.net/rapid"
	"verifharness/internal/ctl"
	"verifharness/internal/stats"
)

// ---------------------------------------------------------------------------------------------------------
// Derived values over a drawn graph: inputs are 2-4 Variables[int] and 2-3 Sets[int]; derived nodes are
// NewDerivedVariable{1,2,3} (linear compute functions), Variable.InheritFrom, Counter.Monitor, DerivedSet.InheritFrom
// and SubtractReactive. Nodes may use earlier nodes as inputs (chains). Structural actions (create a node,
// unsubscribe it, add / remove a monitored input or an inherited source group) are part of the program.
// Oracle: every node equals its defining function of the CURRENT values of its inputs (read with Get / ToSlice)
// - after every action in the sequential variant, at quiescence in the concurrent one.
// ---------------------------------------------------------------------------------------------------------

type nodeSpec struct {
	Kind string `json:"kind"` // dv1 dv2 dv3 inherit counter dset subtract
	In   []int  `json:"in"`   // input indices into the variable pool / set pool (mod pool size at creation time)
	Co   []int  `json:"co"`   // coefficients of the linear compute function (one per input + constant)
	Cond int    `json:"cond"` // counter: -1 = default condition (!= 0), 0/1 = value > Cond, 2 = value < 2, 3 = value == 0, 4 = even (see condOf)
}

func (n nodeSpec) String() string {
	switch n.Kind {
	case "counter":
		return fmt.Sprintf("counter(cond %s) monitors %v", condName(n.Cond), n.In)
	case "dv1", "dv2", "dv3":
		return fmt.Sprintf("%s in=%v co=%v", n.Kind, n.In, n.Co)
	}
	return fmt.Sprintf("%s in=%v", n.Kind, n.In)
}

type gAction struct {
	Op   string   `json:"op"` // vset vcompute sop create unsub monitor unmonitor inherit uninherit
	I    int      `json:"i"`
	V    int      `json:"v"`
	Set  setOp    `json:"set,omitempty"`
	Node nodeSpec `json:"node,omitempty"`
	Srcs []int    `json:"srcs,omitempty"`
	Yld  int      `json:"yld,omitempty"`
}

func (a gAction) String() string {
	switch a.Op {
	case "vset":
		return fmt.Sprintf("V%d.Set(%d)", a.I, a.V)
	case "vcompute":
		return fmt.Sprintf("V%d.Compute(%+d)", a.I, a.V)
	case "sop":
		return fmt.Sprintf("S%d.%s", a.I, a.Set)
	case "create":
		return "create " + a.Node.String()
	case "unsub":
		return fmt.Sprintf("unsubscribe node %d", a.I)
	case "monitor":
		return fmt.Sprintf("node %d monitor var %d", a.I, a.V)
	case "unmonitor":
		return fmt.Sprintf("node %d unmonitor #%d", a.I, a.V)
	case "inherit":
		return fmt.Sprintf("node %d inherit from sets %v", a.I, a.Srcs)
	case "uninherit":
		return fmt.Sprintf("node %d drop source group #%d", a.I, a.V)
	}
	return a.Op
}

func isWrite(op string) bool { return op == "vset" || op == "vcompute" || op == "sop" }

type world struct {
	vars []reactive.Variable[int]
	sets []reactive.Set[int]
}

func newWorld(varInit []int, setInit [][]int) *world {
	w := &world{}
	for i, v := range varInit {
		if i%2 == 1 {
			// every second input rewrites what is written to it (a clamp to 0..2): whoever derives from it has to work
			// with the value the variable holds, not with the value the writer passed in
			w.vars = append(w.vars, reactive.NewVariable[int](func(_ int, n int) int { return min(max(n, 0), 2) }).Init(v))
			continue
		}
		w.vars = append(w.vars, reactive.NewVariable[int]().Init(v))
	}
	for _, s := range setInit {
		w.sets = append(w.sets, reactive.NewSet[int](s...))
	}
	return w
}

func (w *world) write(a gAction) {
	switch a.Op {
	case "vset":
		w.vars[a.I%len(w.vars)].Set(a.V)
	case "vcompute":
		w.vars[a.I%len(w.vars)].Compute(func(c int) int { return c + a.V })
	case "sop":
		doSetOp(w.sets[a.I%len(w.sets)], a.Set)
	}
}

type monitor struct {
	input  reactive.ReadableVariable[int]
	poolIx int
	unsub  func()
	active bool
}

type group struct {
	sources []reactive.ReadableSet[int]
	unsub   func()
	active  bool
}

type node struct {
	spec   nodeSpec
	varLim int // only pool entries below these limits may become inputs later (keeps the graph acyclic)
	setLim int

	// variable-like nodes
	value        reactive.ReadableVariable[int]
	inputs       []reactive.ReadableVariable[int]
	unsubscribe  func()
	unsubscribed bool

	// counter
	counter  reactive.Counter[int]
	monitors []*monitor

	// derived set
	dset   reactive.DerivedSet[int]
	groups []*group

	// subtraction
	subtract reactive.Set[int]
	source   reactive.ReadableSet[int]
	others   []reactive.ReadableSet[int]
}

// table is the part of the graph one goroutine builds: it may read the shared inputs and its own nodes.
type table struct {
	w       *world
	varPool []reactive.ReadableVariable[int]
	setPool []reactive.ReadableSet[int]
	nodes   []*node
	labels  map[string]bool
}

func newTable(w *world) *table {
	t := &table{w: w, labels: map[string]bool{}}
	for _, v := range w.vars {
		t.varPool = append(t.varPool, v)
	}
	for _, s := range w.sets {
		t.setPool = append(t.setPool, s)
	}
	return t
}

func linear(co []int, in ...int) int {
	r := 0
	for i, x := range in {
		if i < len(co) {
			r += co[i] * x
		}
	}
	if len(co) > len(in) {
		r += co[len(in)]
	}
	return r
}

func condOf(c int) func(int) bool {
	switch {
	case c < 0:
		return nil
	case c == 2:
		return func(x int) bool { return x < 2 } // holds for the zero value
	case c == 3:
		return func(x int) bool { return x == 0 } // holds only for the zero value
	case c == 4:
		return func(x int) bool { return x%2 == 0 } // holds for the zero value and others
	}
	return func(x int) bool { return x > c }
}

func condName(c int) string {
	switch {
	case c < 0:
		return "!= 0 (default)"
	case c == 2:
		return "< 2"
	case c == 3:
		return "== 0"
	case c == 4:
		return "even"
	}
	return fmt.Sprintf("> %d", c)
}

func (t *table) create(spec nodeSpec) {
	n := &node{spec: spec, varLim: len(t.varPool), setLim: len(t.setPool)}
	pickVar := func(i int) reactive.ReadableVariable[int] { return t.varPool[spec.In[i]%len(t.varPool)] }
	pickSet := func(i int) reactive.ReadableSet[int] { return t.setPool[spec.In[i]%len(t.setPool)] }
	co := spec.Co
	switch spec.Kind {
	case "dv1":
		n.inputs = []reactive.ReadableVariable[int]{pickVar(0)}
		d := reactive.NewDerivedVariable[int](func(_ int, a int) int { return linear(co, a) }, n.inputs[0])
		n.value, n.unsubscribe = d, d.Unsubscribe
	case "dv2":
		n.inputs = []reactive.ReadableVariable[int]{pickVar(0), pickVar(1)}
		d := reactive.NewDerivedVariable2[int](func(_ int, a, b int) int { return linear(co, a, b) }, n.inputs[0], n.inputs[1])
		n.value, n.unsubscribe = d, d.Unsubscribe
	case "dv3":
		n.inputs = []reactive.ReadableVariable[int]{pickVar(0), pickVar(1), pickVar(2)}
		d := reactive.NewDerivedVariable3[int](func(_ int, a, b, c int) int { return linear(co, a, b, c) }, n.inputs[0], n.inputs[1], n.inputs[2])
		n.value, n.unsubscribe = d, d.Unsubscribe
	case "inherit":
		n.inputs = []reactive.ReadableVariable[int]{pickVar(0)}
		v := reactive.NewVariable[int]()
		if len(spec.Co) > 0 && spec.Co[0] != 0 {
			// the follower already holds a value of its own when it starts to inherit (e.g. it was written before, or it
			// followed another source until then): InheritFrom still has to make it a copy of the source, also when the
			// source currently holds the zero value
			v.Set(spec.Co[0])
		}
		n.value, n.unsubscribe = v, v.InheritFrom(n.inputs[0])
	case "counter":
		if c := condOf(spec.Cond); c != nil {
			n.counter = reactive.NewCounter[int](c)
		} else {
			n.counter = reactive.NewCounter[int]()
		}
		n.value = n.counter
		for i := range spec.In {
			t.monitor(n, spec.In[i])
		}
	case "dset":
		n.dset = reactive.NewDerivedSet[int]()
		var srcs []int
		srcs = append(srcs, spec.In...)
		t.inherit(n, srcs)
	case "subtract":
		n.source = pickSet(0)
		for i := 1; i < len(spec.In); i++ {
			n.others = append(n.others, pickSet(i))
		}
		n.subtract = n.source.SubtractReactive(n.others...)
	default:
		panic("unknown node kind " + spec.Kind)
	}
	t.nodes = append(t.nodes, n)
	if n.value != nil {
		t.varPool = append(t.varPool, n.value)
	}
	if n.dset != nil {
		t.setPool = append(t.setPool, n.dset)
	}
	if n.subtract != nil {
		t.setPool = append(t.setPool, n.subtract)
	}
	if len(n.inputs) > 0 {
		for _, in := range n.inputs {
			for _, v := range t.varPool[len(t.w.vars):] {
				if in == v {
					t.labels["chained_variable"] = true
				}
			}
		}
	}
	t.labels["node:"+spec.Kind] = true
}

func (t *table) monitor(n *node, ix int) {
	if n.counter == nil || n.varLim == 0 {
		return
	}
	poolIx := ix % n.varLim
	for _, m := range n.monitors {
		if m.active && m.poolIx == poolIx {
			return // one input is monitored at most once at a time (counting it twice or once is not specified)
		}
	}
	m := &monitor{input: t.varPool[poolIx], poolIx: poolIx, active: true}
	n.monitors = append(n.monitors, m)
	m.unsub = n.counter.Monitor(m.input)
}

func (t *table) unmonitor(n *node, j int) {
	if n.counter == nil || len(n.monitors) == 0 {
		return
	}
	m := n.monitors[j%len(n.monitors)]
	if !m.active {
		return
	}
	m.active = false
	m.unsub()
	t.labels["counter_unmonitor"] = true
}

func (t *table) inherit(n *node, srcs []int) {
	if n.dset == nil || n.setLim == 0 || len(srcs) == 0 {
		return
	}
	g := &group{active: true}
	for _, s := range srcs {
		g.sources = append(g.sources, t.setPool[s%n.setLim])
	}
	n.groups = append(n.groups, g)
	g.unsub = n.dset.InheritFrom(g.sources...)
}

func (t *table) uninherit(n *node, j int) {
	if n.dset == nil || len(n.groups) == 0 {
		return
	}
	g := n.groups[j%len(n.groups)]
	if !g.active {
		return
	}
	g.active = false
	g.unsub()
	t.labels["dset_drop_sources"] = true
}

func (t *table) structural(a gAction) {
	switch a.Op {
	case "create":
		t.create(a.Node)
		return
	}
	if len(t.nodes) == 0 {
		return
	}
	n := t.nodes[a.I%len(t.nodes)]
	switch a.Op {
	case "unsub":
		if n.unsubscribe != nil && !n.unsubscribed {
			n.unsubscribed = true
			n.unsubscribe()
			t.labels["variable_unsubscribed"] = true
		}
	case "monitor":
		t.monitor(n, a.V)
	case "unmonitor":
		t.unmonitor(n, a.V)
	case "inherit":
		t.inherit(n, a.Srcs)
	case "uninherit":
		t.uninherit(n, a.V)
	}
}

// check compares every node with its defining function of the current inputs.
func (t *table) check() []string {
	var errs []string
	for i, n := range t.nodes {
		name := fmt.Sprintf("node %d (%s)", i, n.spec.Kind)
		switch n.spec.Kind {
		case "dv1", "dv2", "dv3":
			if n.unsubscribed {
				continue
			}
			in := make([]int, len(n.inputs))
			for k, v := range n.inputs {
				in[k] = v.Get()
			}
			if got, want := n.value.Get(), linear(n.spec.Co, in...); got != want {
				errs = append(errs, fmt.Sprintf("%s: Get() = %d, compute%v(inputs %v) = %d", name, got, n.spec.Co, in, want))
			}
		case "inherit":
			if n.unsubscribed {
				continue
			}
			if got, want := n.value.Get(), n.inputs[0].Get(); got != want {
				errs = append(errs, fmt.Sprintf("%s: Get() = %d, source holds %d", name, got, want))
			}
		case "counter":
			cond := condOf(n.spec.Cond)
			if cond == nil {
				cond = func(x int) bool { return x != 0 }
			}
			want := 0
			var vals []string
			for _, m := range n.monitors {
				if m.active {
					x := m.input.Get()
					vals = append(vals, fmt.Sprint(x))
					if cond(x) {
						want++
					}
				}
			}
			if got := n.counter.Get(); got != want {
				errs = append(errs, fmt.Sprintf("%s: Get() = %d, %d of the currently monitored inputs [%s] satisfy the condition (%s)", name, got, want, strings.Join(vals, " "), condName(n.spec.Cond)))
			}
		case "dset":
			want := map[int]bool{}
			for _, g := range n.groups {
				if g.active {
					for _, s := range g.sources {
						for _, e := range s.ToSlice() {
							want[e] = true
						}
					}
				}
			}
			if got, w := fmt.Sprint(sliceOf(n.dset)), fmt.Sprint(sortedKeys(want)); got != w {
				errs = append(errs, fmt.Sprintf("%s: holds %s, union of its current sources is %s", name, got, w))
			}
		case "subtract":
			want := map[int]bool{}
			for _, e := range n.source.ToSlice() {
				want[e] = true
			}
			for _, o := range n.others {
				for _, e := range o.ToSlice() {
					delete(want, e)
				}
			}
			if got, w := fmt.Sprint(sliceOf(n.subtract)), fmt.Sprint(sortedKeys(want)); got != w {
				errs = append(errs, fmt.Sprintf("%s: holds %s, source minus others is %s", name, got, w))
			}
		}
	}
	return errs
}

// ---------------------------------------------------------------------------------------------------------
// sequential
// ---------------------------------------------------------------------------------------------------------

type graphSeqProg struct {
	VarInit []int     `json:"var_init"`
	SetInit [][]int   `json:"set_init"`
	Actions []gAction `json:"actions"`
}

func (p graphSeqProg) strings() []string {
	out := []string{fmt.Sprintf("vars %v sets %v", p.VarInit, p.SetInit)}
	for _, a := range p.Actions {
		out = append(out, a.String())
	}
	return out
}

func runGraphSeq(p graphSeqProg) verdict {
	w := newWorld(p.VarInit, p.SetInit)
	t := newTable(w)
	v := verdict{}
	writesAfterCreate := 0
	for _, a := range p.Actions {
		v.Trace = append(v.Trace, a.String())
		if isWrite(a.Op) {
			if a.Op == "sop" && a.Set.Op == "replace" {
				cur := w.sets[a.I%len(w.sets)]
				for _, e := range a.Set.A {
					if cur.Has(e) && len(t.nodes) > 0 {
						t.labels["replace_overlaps_contents"] = true
					}
				}
			}
			w.write(a)
			if len(t.nodes) > 0 {
				writesAfterCreate++
			}
		} else {
			t.structural(a)
		}
		if errs := t.check(); len(errs) > 0 {
			v.Msg = fmt.Sprintf("after %q: %s", a.String(), strings.Join(errs, "; "))
			break
		}
	}
	v.NonTrivial = len(t.nodes) > 0 && writesAfterCreate >= 2
	v.Labels = labelList(t.labels)
	return v
}

func genElems(minLen, maxLen int) *rapid.Generator[[]int] {
	return rapid.Custom(func(t *rapid.T) []int {
		l := rapid.SliceOfNDistinct(rapid.IntRange(0, universe-1), minLen, maxLen, func(e int) int { return e }).Draw(t, "elems")
		out := append([]int{}, l...)
		return out
	})
}

func genSetOp() *rapid.Generator[setOp] {
	return rapid.Custom(func(t *rapid.T) setOp {
		o := setOp{Op: rapid.SampledFrom([]string{"add", "add", "delete", "delete", "addall", "deleteall", "apply", "compute", "replace", "replace"}).Draw(t, "op")}
		switch o.Op {
		case "add", "delete":
			o.A = []int{rapid.IntRange(0, universe-1).Draw(t, "e")}
		case "apply":
			o.A = genElems(0, 3).Draw(t, "added")
			o.B = genElems(0, 3).Draw(t, "deleted")
		default:
			o.A = genElems(0, 4).Draw(t, "elems")
		}
		return o
	})
}

func genNode() *rapid.Generator[nodeSpec] {
	return rapid.Custom(func(t *rapid.T) nodeSpec {
		n := nodeSpec{Kind: rapid.SampledFrom([]string{"dv1", "dv2", "dv2", "dv3", "inherit", "counter", "counter", "dset", "dset", "subtract"}).Draw(t, "kind"), Cond: -1}
		ix := rapid.IntRange(0, 9)
		co := rapid.IntRange(-2, 2)
		switch n.Kind {
		case "dv1":
			n.In, n.Co = rapid.SliceOfN(ix, 1, 1).Draw(t, "in"), rapid.SliceOfN(co, 2, 2).Draw(t, "co")
		case "dv2":
			n.In, n.Co = rapid.SliceOfN(ix, 2, 2).Draw(t, "in"), rapid.SliceOfN(co, 3, 3).Draw(t, "co")
		case "dv3":
			n.In, n.Co = rapid.SliceOfN(ix, 3, 3).Draw(t, "in"), rapid.SliceOfN(co, 4, 4).Draw(t, "co")
		case "inherit":
			n.In = rapid.SliceOfN(ix, 1, 1).Draw(t, "in")
			n.Co = rapid.SliceOfN(rapid.IntRange(0, 3), 1, 1).Draw(t, "preset")
		case "counter":
			n.In = rapid.SliceOfN(ix, 0, 3).Draw(t, "in")
			n.Cond = rapid.IntRange(-1, 4).Draw(t, "cond")
		case "dset":
			n.In = rapid.SliceOfN(ix, 1, 3).Draw(t, "in")
		case "subtract":
			n.In = rapid.SliceOfN(ix, 1, 3).Draw(t, "in")
		}
		return n
	})
}

func genWrite() *rapid.Generator[gAction] {
	return rapid.Custom(func(t *rapid.T) gAction {
		switch rapid.SampledFrom([]string{"vset", "vset", "vset", "vcompute", "sop", "sop", "sop"}).Draw(t, "w") {
		case "vset":
			return gAction{Op: "vset", I: rapid.IntRange(0, 3).Draw(t, "i"), V: rapid.IntRange(0, 3).Draw(t, "v")}
		case "vcompute":
			return gAction{Op: "vcompute", I: rapid.IntRange(0, 3).Draw(t, "i"), V: rapid.IntRange(-1, 1).Draw(t, "k")}
		}
		return gAction{Op: "sop", I: rapid.IntRange(0, 2).Draw(t, "i"), Set: genSetOp().Draw(t, "set")}
	})
}

func genStructural() *rapid.Generator[gAction] {
	return rapid.Custom(func(t *rapid.T) gAction {
		op := rapid.SampledFrom([]string{"create", "create", "create", "create", "unsub", "monitor", "unmonitor", "unmonitor", "inherit", "uninherit", "uninherit"}).Draw(t, "s")
		a := gAction{Op: op}
		switch op {
		case "create":
			a.Node = genNode().Draw(t, "node")
		case "inherit":
			a.I = rapid.IntRange(0, 7).Draw(t, "node")
			a.Srcs = rapid.SliceOfN(rapid.IntRange(0, 9), 1, 2).Draw(t, "srcs")
		default:
			a.I = rapid.IntRange(0, 7).Draw(t, "node")
			a.V = rapid.IntRange(0, 9).Draw(t, "j")
		}
		return a
	})
}

func genInputs(t *rapid.T) ([]int, [][]int) {
	vars := rapid.SliceOfN(rapid.IntRange(0, 2), 2, 4).Draw(t, "varInit")
	sets := rapid.SliceOfN(genElems(0, 3), 2, 3).Draw(t, "setInit")
	return vars, sets
}

const checkGraphSeq = "graph_sequential"

func TestGraphSeq(t *testing.T) {
	stats.Rule(checkGraphSeq, "rapid draws 2-4 input Variables[int] (every second one created with a transformation function that clamps written values to 0..2), 2-3 input Sets[int] (universe 0..5) with initial values and 1-16 actions: writes (Set/Compute on a variable; Add/Delete/AddAll/DeleteAll/Apply/Compute/Replace on a set) and structural actions (create DerivedVariable1/2/3 with a linear compute function, Variable.InheritFrom, Counter with 0-3 monitored inputs and default / threshold condition or a condition that holds for the zero value (< 2, == 0, even), DerivedSet.InheritFrom(1-3 sources), SubtractReactive(source, others); inputs may be earlier nodes; unsubscribe a derived variable; Monitor / unsubscribe a monitored input; InheritFrom another group / drop a group). Oracle after every action: each node == its defining function of the current Get()/ToSlice() of its inputs. Preconditions kept: no cycles, an input is monitored by one counter at most once at a time, an unsubscribe function is called once. Non-trivial = >=2 writes after the first node exists. Distinct by action list.")
	rapid.Check(t, func(rt *rapid.T) {
		p := graphSeqProg{}
		p.VarInit, p.SetInit = genInputs(rt)
		act := rapid.OneOf(genWrite(), genWrite(), genStructural())
		p.Actions = rapid.SliceOfN(act, 1, 16).Draw(rt, "actions")
		v := runGraphSeq(p)
		key := strings.Join(p.strings(), "|")
		stats.Case(checkGraphSeq, v.NonTrivial, key, func() any { return p.strings() }, v.Labels...)
		if v.Msg != "" {
			stats.Violation(checkGraphSeq, map[string]any{"program": p, "readable": p.strings(), "problem": v.Msg})
			rt.Fatalf("%s\nprogram: %s", v.Msg, strings.Join(p.strings(), "; "))
		}
	})
}

// ---------------------------------------------------------------------------------------------------------
// concurrent
// ---------------------------------------------------------------------------------------------------------

type graphConcProg struct {
	SlowBefore int         `json:"slow_before"` // every input gets an observer registered BEFORE the graph that yields this often in its callback
	SlowAfter  int         `json:"slow_after"`  // ... and one registered after the setup actions
	VarInit    []int       `json:"var_init"`
	SetInit    [][]int     `json:"set_init"`
	Setup      []gAction   `json:"setup"`      // structural actions executed before the goroutines start
	Writers    [][]gAction `json:"writers"`    // write actions on the inputs
	Structural [][]gAction `json:"structural"` // structural actions, one private node table per goroutine
}

func (p graphConcProg) strings() []string {
	out := []string{fmt.Sprintf("vars %v sets %v slow observers %d/%d", p.VarInit, p.SetInit, p.SlowBefore, p.SlowAfter)}
	join := func(l []gAction) string {
		var s []string
		for _, a := range l {
			s = append(s, fmt.Sprintf("y%d %s", a.Yld, a))
		}
		return strings.Join(s, ", ")
	}
	out = append(out, "setup: "+join(p.Setup))
	for i, w := range p.Writers {
		out = append(out, fmt.Sprintf("W%d: %s", i, join(w)))
	}
	for i, w := range p.Structural {
		out = append(out, fmt.Sprintf("G%d: %s", i, join(w)))
	}
	return out
}

func runGraphConc(p graphConcProg) verdict {
	w := newWorld(p.VarInit, p.SetInit)
	var clock ctl.Clock
	// observers that only yield: they stretch the window between "input holds the new value" and "derived values
	// have been recomputed" (registered first) and the callback phase as a whole (registered last)
	slow := func(n int) {
		if n == 0 {
			return
		}
		for _, v := range w.vars {
			v.OnUpdate(func(_, _ int) { gosched(n) })
		}
		for _, s := range w.sets {
			s.OnUpdate(func(ds.SetMutations[int]) { gosched(n) })
		}
	}
	slow(p.SlowBefore)
	setup := newTable(w)
	for _, a := range p.Setup {
		setup.structural(a)
	}
	slow(p.SlowAfter)
	tables := []*table{setup}
	for range p.Structural {
		tables = append(tables, newTable(w))
	}
	writeStamps := make([][]stampPair, len(p.Writers))
	structStamps := make([][]stampPair, len(p.Structural))
	var start barrier
	var wg sync.WaitGroup
	for wi, script := range p.Writers {
		wg.Add(1)
		go func(wi int, script []gAction) {
			defer wg.Done()
			start.wait()
			for _, a := range script {
				gosched(a.Yld)
				st := stampPair{A: clock.Tick()}
				w.write(a)
				st.B = clock.Tick()
				writeStamps[wi] = append(writeStamps[wi], st)
			}
		}(wi, script)
	}
	for gi, script := range p.Structural {
		wg.Add(1)
		go func(gi int, script []gAction) {
			defer wg.Done()
			start.wait()
			t := tables[gi+1]
			for _, a := range script {
				gosched(a.Yld)
				st := stampPair{A: clock.Tick()}
				t.structural(a)
				st.B = clock.Tick()
				structStamps[gi] = append(structStamps[gi], st)
			}
		}(gi, script)
	}
	v := verdict{}
	if !ctl.Within(hangTimeout(), func() { start.release(len(p.Writers) + len(p.Structural)); wg.Wait() }) {
		hangSeen.Store(true)
		v.Hang = true
		v.Msg = "run did not finish within the hang bound; goroutine dump:\n" + ctl.Dump()
		return v
	}
	labels := map[string]bool{}
	var errs []string
	nodes := 0
	for ti, t := range tables {
		nodes += len(t.nodes)
		for _, e := range t.check() {
			errs = append(errs, fmt.Sprintf("table %d %s", ti, e))
		}
		for l := range t.labels {
			labels[l] = true
		}
	}
	// non-trivial: writes of two different writers overlapped, or a structural change overlapped a write
	for i := range writeStamps {
		for j := i + 1; j < len(writeStamps); j++ {
			for _, a := range writeStamps[i] {
				for _, b := range writeStamps[j] {
					if overlaps(a, b) {
						labels["writes_overlap"] = true
					}
				}
			}
		}
	}
	for _, ss := range structStamps {
		for _, s := range ss {
			for _, ws := range writeStamps {
				for _, x := range ws {
					if overlaps(s, x) {
						labels["structural_overlaps_write"] = true
					}
				}
			}
		}
	}
	v.NonTrivial = nodes > 0 && (labels["writes_overlap"] || labels["structural_overlaps_write"])
	if len(errs) > 0 {
		v.Msg = "at quiescence: " + strings.Join(errs, "; ")
	}
	v.Labels = labelList(labels)
	return v
}

const checkGraphConc = "graph_concurrent"

func TestGraphConc(t *testing.T) {
	stats.Rule(checkGraphConc, "same graph elements as graph_sequential. rapid draws the inputs, 0-5 structural setup actions, 1-4 writer goroutines (1-8 writes each on any input, drawn yields) and 0-2 structural goroutines (1-6 structural actions each, private node table over the shared inputs). Interleaving is the Go scheduler's. Oracle at quiescence (all goroutines returned; every action is synchronous): each node == its defining function of the current inputs; 20 s hang watchdog with goroutine dump. Non-trivial = at least one node and (writes of two writers overlapped or a structural action overlapped a write, by stamps). Distinct by program.")
	rapid.Check(t, func(rt *rapid.T) {
		p := graphConcProg{SlowBefore: rapid.IntRange(0, 2).Draw(rt, "slowBefore"), SlowAfter: rapid.IntRange(0, 2).Draw(rt, "slowAfter")}
		p.VarInit, p.SetInit = genInputs(rt)
		yielded := func(g *rapid.Generator[gAction]) *rapid.Generator[gAction] {
			return rapid.Custom(func(t *rapid.T) gAction {
				a := g.Draw(t, "a")
				a.Yld = rapid.IntRange(0, 3).Draw(t, "yield")
				return a
			})
		}
		p.Setup = rapid.SliceOfN(genStructural(), 0, 5).Draw(rt, "setup")
		p.Writers = rapid.SliceOfN(rapid.SliceOfN(yielded(genWrite()), 1, 8), 1, 4).Draw(rt, "writers")
		p.Structural = rapid.SliceOfN(rapid.SliceOfN(yielded(genStructural()), 1, 6), 0, 2).Draw(rt, "structural")
		v := runGraphConc(p)
		key := strings.Join(p.strings(), "|")
		stats.Case(checkGraphConc, v.NonTrivial, key, func() any { return p.strings() }, v.Labels...)
		if v.Msg != "" {
			stats.Violation(checkGraphConc, map[string]any{"program": p, "readable": p.strings(), "problem": v.Msg, "hang": v.Hang})
			rt.Fatalf("%s\nprogram: %s", v.Msg, strings.Join(p.strings(), "; "))
		}
	})
}

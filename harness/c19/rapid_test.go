package c19

import (
	"fmt"
	"math/big"
	"testing"

	"github.com/iotaledger/hive.go/core/safemath"
	"pgregory.net/rapid"
	"verifharness/internal/stats"
)

// genBiased draws a value of T: half from the boundary lattice, a quarter near max/other, the rest uniform.
func genBiased[T safemath.Integer](l []T) *rapid.Generator[T] {
	ti := infoOf[T]()
	return rapid.Custom(func(t *rapid.T) T {
		switch rapid.IntRange(0, 3).Draw(t, "cls") {
		case 0, 1:
			return rapid.SampledFrom(l).Draw(t, "lat")
		case 2:
			// small magnitudes
			v := rapid.Int64Range(-300, 300).Draw(t, "small")
			if !ti.signed && v < 0 {
				v = -v
			}
			return T(v)
		default:
			if ti.signed {
				return T(rapid.Int64().Draw(t, "u"))
			}
			return T(rapid.Uint64().Draw(t, "u"))
		}
	})
}

// partner draws y so that x op y lands near a boundary: y = bound/x + d, bound - x + d, ...
func partner[T safemath.Integer](t *rapid.T, ti typeInfo, x T, l []T) T {
	bx := toBig(x, ti.signed)
	bound := ti.max
	if rapid.Bool().Draw(t, "useMin") {
		bound = ti.min
	}
	d := big.NewInt(rapid.Int64Range(-2, 2).Draw(t, "d"))
	var r *big.Int
	switch rapid.IntRange(0, 3).Draw(t, "pcls") {
	case 0: // product straddles the bound
		if bx.Sign() == 0 {
			return rapid.SampledFrom(l).Draw(t, "lat")
		}
		r = new(big.Int).Quo(bound, bx)
	case 1: // sum straddles
		r = new(big.Int).Sub(bound, bx)
	case 2: // difference straddles
		r = new(big.Int).Sub(bx, bound)
	default:
		return genBiased(l).Draw(t, "y")
	}
	r.Add(r, d)
	if r.Cmp(ti.min) < 0 || r.Cmp(ti.max) > 0 {
		return rapid.SampledFrom(l).Draw(t, "lat")
	}
	if ti.signed {
		return T(r.Int64())
	}
	return T(r.Uint64())
}

func rapidType[T safemath.Integer](t *testing.T) {
	ti := infoOf[T]()
	check := "rapid_" + ti.name
	stats.Rule(check, "rapid: x from {boundary lattice, small, uniform}, y either biased the same way or constructed so that x*y, x+y or x-y straddles min/max (+-2); op from {add,sub,mul,div,shl with shift 0..255}; oracle math/big; distinct by (op,x,y); non-trivial = overflow, zero divisor or exact result within 2 of a bound")
	l := lattice[T]()
	rapid.Check(t, func(rt *rapid.T) {
		x := genBiased(l).Draw(rt, "x")
		op := rapid.SampledFrom([]string{"add", "sub", "mul", "div", "shl"}).Draw(rt, "op")
		if op == "shl" {
			var s uint8
			if rapid.Bool().Draw(rt, "anyShift") {
				s = rapid.Uint8().Draw(rt, "s")
			} else {
				s = uint8(rapid.IntRange(0, int(ti.bits)+1).Draw(rt, "s"))
			}
			msg, near := checkShiftBig(ti, x, s)
			stats.Case(check, near, fmt.Sprintf("shl|%d|%d", x, s), func() any { return map[string]any{"type": ti.name, "op": op, "x": fmt.Sprint(x), "shift": s} }, "op:shl")
			if msg != "" {
				stats.Violation(check, map[string]any{"type": ti.name, "op": op, "x": fmt.Sprint(x), "shift": s, "problem": msg})
				rt.Fatalf("%s SafeLeftShift(%d,%d): %s", ti.name, x, s, msg)
			}
			return
		}
		y := partner(rt, ti, x, l)
		msg, near := checkBinBig(ti, op, x, y)
		stats.Case(check, near, fmt.Sprintf("%s|%d|%d", op, x, y), func() any { return map[string]any{"type": ti.name, "op": op, "x": fmt.Sprint(x), "y": fmt.Sprint(y)} }, "op:"+op)
		if msg != "" {
			stats.Violation(check, map[string]any{"type": ti.name, "op": op, "x": fmt.Sprint(x), "y": fmt.Sprint(y), "problem": msg})
			rt.Fatalf("%s %s(%d,%d): %s", ti.name, op, x, y, msg)
		}
	})
}

func TestRapidInt32(t *testing.T)  { rapidType[int32](t) }
func TestRapidUint32(t *testing.T) { rapidType[uint32](t) }
func TestRapidInt64(t *testing.T)  { rapidType[int64](t) }
func TestRapidUint64(t *testing.T) { rapidType[uint64](t) }
func TestRapidInt16(t *testing.T)  { rapidType[int16](t) }
func TestRapidUint16(t *testing.T) { rapidType[uint16](t) }

func checkMulInt64(x, y int64) (string, bool) {
	ti := infoOf[int64]()
	exp := expectFor(ti, new(big.Int).Mul(big.NewInt(x), big.NewInt(y)))
	got, err := safemath.SafeMulInt64(x, y)
	return judge(ti, exp, got, err), exp.near
}

func checkMulUint64(x, y uint64) (string, bool) {
	ti := infoOf[uint64]()
	exp := expectFor(ti, new(big.Int).Mul(toBig(x, false), toBig(y, false)))
	got, err := safemath.SafeMulUint64(x, y)
	return judge(ti, exp, got, err), exp.near
}

func checkMulDiv(x, y, d uint64) (string, bool) {
	ti := infoOf[uint64]()
	var exp expectation
	if d == 0 {
		exp = expectation{kind: "divzero", near: true}
	} else {
		p := new(big.Int).Mul(toBig(x, false), toBig(y, false))
		exp = expectFor(ti, p.Quo(p, toBig(d, false)))
	}
	got, err := safemath.Safe64MulDiv(x, y, d)
	return judge(ti, exp, got, err), exp.near
}

func TestRapidMul64(t *testing.T) {
	const check = "rapid_mul64_muldiv"
	stats.Rule(check, "rapid: SafeMulInt64, SafeMulUint64, Safe64MulDiv over biased operands; for MulDiv the divisor is drawn around the high word of x*y (prodHi-1..prodHi+2), 0, 1, max and uniform; oracle math/big; distinct by (fn,x,y,div); non-trivial as above")
	ls, lu := lattice[int64](), lattice[uint64]()
	tis, tiu := infoOf[int64](), infoOf[uint64]()
	rapid.Check(t, func(rt *rapid.T) {
		switch rapid.IntRange(0, 2).Draw(rt, "fn") {
		case 0:
			x := genBiased(ls).Draw(rt, "x")
			y := partner(rt, tis, x, ls)
			msg, near := checkMulInt64(x, y)
			stats.Case(check, near, fmt.Sprintf("mi|%d|%d", x, y), func() any { return map[string]any{"fn": "SafeMulInt64", "x": fmt.Sprint(x), "y": fmt.Sprint(y)} }, "fn:SafeMulInt64")
			if msg != "" {
				stats.Violation(check, map[string]any{"fn": "SafeMulInt64", "x": fmt.Sprint(x), "y": fmt.Sprint(y), "problem": msg})
				rt.Fatalf("SafeMulInt64(%d,%d): %s", x, y, msg)
			}
		case 1:
			x := genBiased(lu).Draw(rt, "x")
			y := partner(rt, tiu, x, lu)
			msg, near := checkMulUint64(x, y)
			stats.Case(check, near, fmt.Sprintf("mu|%d|%d", x, y), func() any { return map[string]any{"fn": "SafeMulUint64", "x": fmt.Sprint(x), "y": fmt.Sprint(y)} }, "fn:SafeMulUint64")
			if msg != "" {
				stats.Violation(check, map[string]any{"fn": "SafeMulUint64", "x": fmt.Sprint(x), "y": fmt.Sprint(y), "problem": msg})
				rt.Fatalf("SafeMulUint64(%d,%d): %s", x, y, msg)
			}
		default:
			x := genBiased(lu).Draw(rt, "x")
			y := genBiased(lu).Draw(rt, "y")
			p := new(big.Int).Mul(toBig(x, false), toBig(y, false))
			hi := new(big.Int).Rsh(p, 64).Uint64()
			var d uint64
			switch rapid.IntRange(0, 3).Draw(rt, "dcls") {
			case 0:
				d = hi + uint64(rapid.IntRange(-1, 2).Draw(rt, "dd"))
			case 1:
				d = rapid.SampledFrom([]uint64{0, 1, 2, ^uint64(0), ^uint64(0) - 1, 1 << 63}).Draw(rt, "dconst")
			case 2:
				d = genBiased(lu).Draw(rt, "d")
			default:
				d = rapid.Uint64().Draw(rt, "d")
			}
			msg, near := checkMulDiv(x, y, d)
			stats.Case(check, near, fmt.Sprintf("md|%d|%d|%d", x, y, d), func() any {
				return map[string]any{"fn": "Safe64MulDiv", "x": fmt.Sprint(x), "y": fmt.Sprint(y), "div": fmt.Sprint(d)}
			}, "fn:Safe64MulDiv")
			if msg != "" {
				stats.Violation(check, map[string]any{"fn": "Safe64MulDiv", "x": fmt.Sprint(x), "y": fmt.Sprint(y), "div": fmt.Sprint(d), "problem": msg})
				rt.Fatalf("Safe64MulDiv(%d,%d,%d): %s", x, y, d, msg)
			}
		}
	})
}

// Native fuzz targets (thorough tier only; coverage-guided, cannot be pinned to a seed).
func FuzzMulDiv(f *testing.F) {
	f.Add(uint64(0), uint64(0), uint64(0))
	f.Add(^uint64(0), ^uint64(0), ^uint64(0))
	f.Add(^uint64(0), ^uint64(0), ^uint64(0)-1)
	f.Add(uint64(1)<<32, uint64(1)<<32, uint64(1))
	f.Add(uint64(1)<<32, uint64(1)<<32, uint64(2))
	f.Fuzz(func(t *testing.T, x, y, d uint64) {
		if msg, _ := checkMulDiv(x, y, d); msg != "" {
			t.Fatalf("Safe64MulDiv(%d,%d,%d): %s", x, y, d, msg)
		}
		if msg, _ := checkMulUint64(x, y); msg != "" {
			t.Fatalf("SafeMulUint64(%d,%d): %s", x, y, msg)
		}
	})
}

func FuzzInt64Ops(f *testing.F) {
	f.Add(int64(-1), int64(-1<<63), uint8(0))
	f.Add(int64(-1<<63), int64(-1), uint8(63))
	f.Add(int64(1)<<62, int64(2), uint8(1))
	f.Add(int64(3037000500), int64(3037000500), uint8(64))
	f.Fuzz(func(t *testing.T, x, y int64, s uint8) {
		ti := infoOf[int64]()
		for _, op := range binOps {
			if msg, _ := checkBinBig(ti, op, x, y); msg != "" {
				t.Fatalf("int64 %s(%d,%d): %s", op, x, y, msg)
			}
		}
		if msg, _ := checkMulInt64(x, y); msg != "" {
			t.Fatalf("SafeMulInt64(%d,%d): %s", x, y, msg)
		}
		if msg, _ := checkShiftBig(ti, x, s); msg != "" {
			t.Fatalf("SafeLeftShift(%d,%d): %s", x, s, msg)
		}
		ti32 := infoOf[int32]()
		for _, op := range binOps {
			if msg, _ := checkBinBig(ti32, op, int32(x), int32(y)); msg != "" {
				t.Fatalf("int32 %s(%d,%d): %s", op, int32(x), int32(y), msg)
			}
		}
	})
}

// Demonstration of an independent auditor (fifth round), kept as a regression test; see known_findings.json.
package c01

import (
	"context"
	"testing"

	"github.com/stretchr/testify/require"

	"github.com/iotaledger/hive.go/serializer/v2/serix"
)

type hunt25Feature interface{ isHunt25Feature() }

// an implementation that is a struct (its map form has a place for the type code)
type hunt25Level struct {
	X uint8 `serix:""`
}

func (hunt25Level) isHunt25Feature() {}

// an implementation that is a map (its map form has no place for the type code)
type hunt25Attributes map[string]uint8

func (hunt25Attributes) isHunt25Feature() {}

type hunt25Holder struct {
	Feature hunt25Feature `serix:""`
}

// Since 2247b3c MapEncode refuses an interface implementation whose map form has no place for its type code (strings,
// numbers, slices, maps): MapDecode could never find the implementation. Whether the map form "carries the type code"
// is decided by looking for a key named "type" in the result, though - and the entries of a map implementation are
// keys of that very object. A map value that happens to have an entry "type" passes the check: it is written WITHOUT
// a type code, and MapDecode takes the entry for the type code - it silently returns ANOTHER implementation (or fails).
func TestRegressionAudit25MapImplementationWithTypeEntry(t *testing.T) {
	api := serix.NewAPI()
	ctx := context.Background()
	lenPrefix := serix.LengthPrefixTypeAsByte
	require.NoError(t, api.RegisterTypeSettings("", serix.TypeSettings{}.WithLengthPrefixType(lenPrefix)))
	require.NoError(t, api.RegisterTypeSettings(hunt25Level{}, serix.TypeSettings{}.WithObjectType(uint8(1))))
	require.NoError(t, api.RegisterTypeSettings(hunt25Attributes{}, serix.TypeSettings{}.WithObjectType(uint8(2)).WithLengthPrefixType(lenPrefix)))
	require.NoError(t, api.RegisterInterfaceObjects((*hunt25Feature)(nil), hunt25Level{}, hunt25Attributes{}))

	// the repaired behaviour: a map implementation can't be expressed, it is refused
	_, err := api.JSONEncode(ctx, &hunt25Holder{Feature: hunt25Attributes{"x": 2}})
	require.Error(t, err)

	for _, validation := range []bool{false, true} {
		var opts []serix.Option
		if validation {
			opts = append(opts, serix.WithValidation())
		}

		for _, attributes := range []hunt25Attributes{
			{"type": 1, "x": 2}, // read back as hunt25Level{X: 2}
			{"type": 7},         // no implementation with code 7: can't be read back
			{"type": 1},         // read as a hunt25Level without its field: can't be read back
		} {
			src := &hunt25Holder{Feature: attributes}

			// control: the binary form writes the type code in front of the map and round-trips
			b, err := api.Encode(ctx, src, opts...)
			require.NoError(t, err)
			bdst := &hunt25Holder{}
			_, err = api.Decode(ctx, b, bdst, opts...)
			require.NoError(t, err)
			require.Equal(t, src, bdst)

			j, err := api.JSONEncode(ctx, src, opts...)
			if err != nil {
				continue // refused like every other map: fine
			}
			dst := &hunt25Holder{}
			if err := api.JSONDecode(ctx, j, dst, opts...); err != nil {
				t.Errorf("validation=%v: JSONEncode accepted %#v and wrote %s, JSONDecode fails: %.150s", validation, attributes, j, err.Error())
				continue
			}
			if _, isAttributes := dst.Feature.(hunt25Attributes); !isAttributes {
				t.Errorf("validation=%v: JSONEncode accepted %#v and wrote %s, JSONDecode returns %#v", validation, attributes, j, dst.Feature)
				continue
			}
			require.Equal(t, src, dst)
		}
	}
}

package c13

import (
	"fmt"
	"sync/atomic"
	"testing"
	"time"

	"github.com/iotaledger/hive.go/ds/reactive"
	"pgregory.net/rapid"
	"verifharness/internal/ctl"
	"verifharness/internal/stats"
)

// TestWithContextUnsubscribeDuringUpdate: subscriptions created inside the context of an OnUpdateWithContext callback
// (and the setups of WithValue, which is built on it) belong to the outer subscription: once the outer unsubscribe /
// teardown call has returned none of them may fire any more and every setup has been torn down - also when the call
// was issued while a notification of the outer subscription was still being delivered by a concurrent writer.
func TestWithContextUnsubscribeDuringUpdate(t *testing.T) {
	const check = "with_context_unsubscribe_during_update"
	stats.Rule(check, "an outer Variable[int] with an OnUpdateWithContext subscriber whose callback creates an OnUpdate subscription on an inner Variable within the context, plus a WithValue setup/teardown counter on the same outer variable; rapid draws 0..3 earlier outer writes (earlier contexts), whether the last outer write is parked by the controller inside the callback while unsubscribe + teardown are called from another goroutine (steering delay 0..3 ms before the release), and 1..3 inner writes afterwards. Oracle: the calls return (20 s watchdog); after they returned no inner-subscription callback starts for the later inner writes and no WithValue setup is left active; before the unsubscribe exactly the subscription of the latest context fires per inner write. Distinct by configuration; non-trivial = the unsubscribe raced a parked notification")
	rapid.Check(t, func(rt *rapid.T) {
		earlier := rapid.IntRange(0, 3).Draw(rt, "earlierWrites")
		parked := rapid.IntRange(0, 3).Draw(rt, "parked") != 0
		delayUs := rapid.IntRange(0, 3000).Draw(rt, "steeringDelayUs")
		later := rapid.IntRange(1, 3).Draw(rt, "laterInnerWrites")
		desc := fmt.Sprintf("earlierWrites=%d parkedNotification=%v delay=%dus laterInnerWrites=%d", earlier, parked, delayUs, later)
		fail := func(format string, a ...any) {
			msg := fmt.Sprintf(format, a...)
			stats.Violation(check, map[string]any{"config": desc, "problem": msg})
			rt.Fatalf("%s: %s", desc, msg)
		}
		outer := reactive.NewVariable[int]()
		inner := reactive.NewVariable[int]()
		const parkValue = 1000
		entered := make(chan struct{})
		release := make(chan struct{})
		var innerCalls atomic.Int64
		unsubscribe := outer.OnUpdateWithContext(func(_, newValue int, withinContext func(func() func())) {
			if parked && newValue == parkValue {
				close(entered)
				<-release
			}
			withinContext(func() func() {
				return inner.OnUpdate(func(_, _ int) { innerCalls.Add(1) })
			})
		})
		var activeSetups atomic.Int64
		teardown := outer.WithValue(func(int) func() {
			activeSetups.Add(1)
			return func() { activeSetups.Add(-1) }
		})
		innerValue := 0
		for i := 1; i <= earlier; i++ {
			outer.Set(i)
			before := innerCalls.Load()
			innerValue++
			inner.Set(innerValue)
			if got := innerCalls.Load() - before; got != 1 {
				fail("after outer write %d an inner write triggered %d inner-subscription callbacks, want exactly the one of the latest context", i, got)
			}
			if a := activeSetups.Load(); a != 1 {
				fail("after outer write %d there are %d active WithValue setups, want 1", i, a)
			}
		}
		writerDone := make(chan struct{})
		go func() { defer close(writerDone); outer.Set(parkValue) }()
		if parked {
			if !ctl.WaitChan(entered, ctl.HangTimeout) {
				fail("the outer callback was not invoked for the last write\n%s", ctl.Dump())
			}
		} else if !ctl.WaitChan(writerDone, ctl.HangTimeout) {
			fail("outer.Set did not return\n%s", ctl.Dump())
		}
		unsubscribed := make(chan struct{})
		go func() { defer close(unsubscribed); unsubscribe(); teardown() }()
		if parked {
			time.Sleep(time.Duration(delayUs) * time.Microsecond)
			close(release)
		}
		if !ctl.WaitChan(unsubscribed, ctl.HangTimeout) || !ctl.WaitChan(writerDone, ctl.HangTimeout) {
			fail("unsubscribe / teardown / the parked writer did not return\n%s", ctl.Dump())
		}
		before := innerCalls.Load()
		for i := 0; i < later; i++ {
			innerValue++
			inner.Set(innerValue)
		}
		if got := innerCalls.Load() - before; got != 0 {
			fail("%d callback(s) of subscriptions created within the context of the outer subscription ran after its unsubscribe call had returned", got)
		}
		if a := activeSetups.Load(); a != 0 {
			fail("%d WithValue setup(s) still active after the teardown function returned", a)
		}
		stats.Case(check, parked, desc, func() any { return desc })
	})
}

package c02

import (
	"context"
	"encoding/json"
	"fmt"
	"testing"

	"github.com/iotaledger/hive.go/serializer/v2/serix"
	"pgregory.net/rapid"
	"verifharness/internal/stats"
)

// Target types whose shape alone decides how a decoder has to behave (the generated shapes of serixgen only contain
// types that can be decoded into): whatever the input, the call returns a value or an error.

type awkInner struct {
	Y uint16 `serix:""`
}

// embedded unexported struct through a pointer: a nil pointer cannot be initialised by reflection
type awkUnexportedEmbPtr struct {
	*awkInner `serix:""`
	Z         int32 `serix:""`
}

// AwkExported is embedded through a pointer (can be initialised).
type AwkExported struct {
	Y uint16 `serix:""`
}
type awkExportedEmbPtr struct {
	*AwkExported `serix:""`
	Z            int32 `serix:""`
}

// a field without any serix-visible content, an interface field nobody registered, a pointer to a pointer
type awkNoFields struct {
	hidden int
	Plain  string
}
type awkUnregisteredIface struct {
	I fmt.Stringer `serix:""`
	N uint8        `serix:""`
}
type awkPtrPtr struct {
	P **awkInner `serix:",optional"`
}
type awkFuncField struct {
	F func()   `serix:""`
	C chan int `serix:""`
}

var _ = awkNoFields{}.hidden

func TestAwkwardTargets(t *testing.T) {
	const check = "serix_awkward_targets"
	stats.Rule(check, "fixed target types that the generated shapes cannot contain (nil embedded pointer to an unexported struct, embedded pointer to an exported struct, struct without serix fields, field of an unregistered interface type, pointer to pointer, func/chan fields) x drawn input (0..40 random bytes for Decode; a small JSON object with the fields' keys and junk values for JSONDecode/MapDecode) x validation off/on. Oracle: the call returns (value or error), no panic. Distinct by (type, input); non-trivial = every case")
	targets := []struct {
		name string
		mk   func() any
	}{
		{"unexported_embedded_pointer", func() any { return &awkUnexportedEmbPtr{} }},
		{"exported_embedded_pointer", func() any { return &awkExportedEmbPtr{} }},
		{"no_serix_fields", func() any { return &awkNoFields{} }},
		{"unregistered_interface_field", func() any { return &awkUnregisteredIface{} }},
		{"pointer_to_pointer", func() any { return &awkPtrPtr{} }},
		{"func_and_chan_fields", func() any { return &awkFuncField{} }},
	}
	rapid.Check(t, func(rt *rapid.T) {
		tg := targets[rapid.IntRange(0, len(targets)-1).Draw(rt, "target")]
		api := serix.NewAPI()
		raw := rapid.SliceOfN(rapid.Byte(), 0, 40).Draw(rt, "raw")
		m := map[string]any{}
		for _, k := range []string{"y", "z", "awkInner", "awkExported", "plain", "i", "n", "p", "f", "c"} {
			if rapid.Bool().Draw(rt, "has_"+k) {
				m[k] = rapid.SampledFrom(junkNodes).Draw(rt, "junk_"+k)()
			}
		}
		doc, err := json.Marshal(m)
		if err != nil {
			rt.Skip("unmarshalable document")
		}
		ex := map[string]any{"target": tg.name, "raw": fmt.Sprintf("%x", raw), "document": string(doc)}
		fail := func(format string, a ...any) {
			ex["problem"] = fmt.Sprintf(format, a...)
			stats.Violation(check, ex)
			rt.Fatalf("%s: %v", check, ex)
		}
		for _, validate := range []bool{false, true} {
			var opts []serix.Option
			if validate {
				opts = append(opts, serix.WithValidation())
			}
			if p := catch(func() { _, _ = api.Decode(context.Background(), raw, tg.mk(), opts...) }); p != nil {
				fail("Decode(validation=%v) panicked: %v", validate, p)
			}
			if p := catch(func() { _ = api.JSONDecode(context.Background(), doc, tg.mk(), opts...) }); p != nil {
				fail("JSONDecode(validation=%v) panicked: %v", validate, p)
			}
			if p := catch(func() { _ = api.MapDecode(context.Background(), m, tg.mk(), opts...) }); p != nil {
				fail("MapDecode(validation=%v) panicked: %v", validate, p)
			}
		}
		stats.Case(check, true, tg.name+"|"+fmt.Sprintf("%x", raw)+"|"+string(doc), func() any { return ex }, "target:"+tg.name)
	})
}

package c20

import (
	"context"
	"fmt"
	"sync"
	"sync/atomic"
	"testing"

	"github.com/iotaledger/hive.go/app/daemon"
	"pgregory.net/rapid"
	"verifharness/internal/ctl"
	"verifharness/internal/stats"
)

// TestStartRacingShutdown: Start and ShutdownAndWait are called at the same instant on a daemon with many registered
// workers, while further registrations keep its lock busy. Either the shutdown comes first and no worker is ever
// started, or the start comes first and the shutdown stops every worker: in both cases nothing runs once
// ShutdownAndWait and Start have returned, and the daemon is stopped and not running.
func TestStartRacingShutdown(t *testing.T) {
	const check = "start_racing_shutdown"
	stats.Rule(check, "rapid draws 5..200 pre-registered workers (orders from {-1,0,2}), whether a third goroutine keeps registering further workers during the race (keeps the daemon's lock busy) and which side gets a head start of 0..3 yields; 30 trials (thorough 300) per case: fresh daemon, Start ‖ ShutdownAndWait released together (20 s watchdog). Oracle after both returned and the registering goroutine stopped: every worker that was started saw its context cancelled and returned; IsStopped and not IsRunning; a later Start starts nothing. Distinct by configuration; non-trivial = >= 50 workers with concurrent registrations")
	trials := stats.Scale(30, 300)
	rapid.Check(t, func(rt *rapid.T) {
		n := rapid.IntRange(5, 200).Draw(rt, "workers")
		busy := rapid.Bool().Draw(rt, "concurrentRegistrations")
		head := rapid.IntRange(-3, 3).Draw(rt, "headStartYields")
		desc := fmt.Sprintf("workers=%d concurrentRegistrations=%v headStart=%d", n, busy, head)
		fail := func(format string, a ...any) {
			msg := fmt.Sprintf(format, a...)
			stats.Violation(check, map[string]any{"config": desc, "problem": msg})
			rt.Fatalf("%s: %s", desc, msg)
		}
		for trial := 0; trial < trials; trial++ {
			d := daemon.New()
			var started, returned atomic.Int64
			abort := make(chan struct{})
			handler := func(ctx context.Context) {
				started.Add(1)
				select {
				case <-ctx.Done():
				case <-abort:
				}
				returned.Add(1)
			}
			for i := 0; i < n; i++ {
				if err := d.BackgroundWorker(fmt.Sprintf("w%d", i), handler, []int{-1, 0, 2}[i%3]); err != nil {
					fail("registering w%d: %v", i, err)
				}
			}
			var ready atomic.Int32
			spin := func(yields int) {
				ready.Add(1)
				for ready.Load() < 2 {
				}
				for i := 0; i < yields; i++ {
					ctl.Settle(0)
				}
			}
			var stopReg atomic.Bool
			var wg sync.WaitGroup
			if busy {
				wg.Add(1)
				go func() {
					defer wg.Done()
					for i := 0; !stopReg.Load() && i < 5000; i++ {
						_ = d.BackgroundWorker(fmt.Sprintf("x%d", i), handler, i%3)
					}
				}()
			}
			wg.Add(2)
			go func() { defer wg.Done(); spin(max(head, 0)); d.Start() }()
			go func() { defer wg.Done(); spin(max(-head, 0)); d.ShutdownAndWait(); stopReg.Store(true) }()
			if !ctl.WithinHang(wg.Wait) {
				close(abort)
				fail("trial %d: Start / ShutdownAndWait / BackgroundWorker did not return\n%s", trial, ctl.Dump())
			}
			d.Start() // a stopped daemon must not start anything
			ctl.Settle(0)
			s, r := started.Load(), returned.Load()
			if s != r || !d.IsStopped() || d.IsRunning() {
				close(abort)
				fail("trial %d: after Start and ShutdownAndWait returned %d workers had been started and %d had returned; IsStopped=%v IsRunning=%v (a started worker must be cancelled and awaited by the shutdown, or never be started)", trial, s, r, d.IsStopped(), d.IsRunning())
			}
			close(abort)
		}
		stats.Case(check, n >= 50 && busy, desc, func() any { return desc })
	})
}

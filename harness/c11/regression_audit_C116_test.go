// Demonstration of an independent auditor (third round), kept as a regression test; see known_findings.json.
package c11

import (
	"sync"
	"sync/atomic"
	"testing"
	"time"

	"github.com/iotaledger/hive.go/ds"
	"github.com/iotaledger/hive.go/ds/serializableorderedmap"
	"github.com/iotaledger/hive.go/serializer/v2/serix"
)

// Property C11: Encode/Decode round-trips contents and order; quantified over all interleavings of concurrent method
// calls on one set/map.
//
// SerializableOrderedMap.Encode writes the element count from Size() and then walks the entries with ForEach: two
// separate lock acquisitions. A single Add / Delete (Set / Delete on the map) that runs in between makes the count
// disagree with the number of entries that follow. The result is not the encoding of ANY state the container ever had:
// Decode either fails on it (count too large) or stops early and leaves bytes behind (count too small).

func TestRegressionAuditC116_SetEncodeConcurrentAddDelete(t *testing.T) {
	api := serix.NewAPI()
	s := ds.NewSet[uint8](1, 2, 3)

	var stop atomic.Bool
	var wg sync.WaitGroup
	wg.Add(1)
	go func() {
		defer wg.Done()
		for !stop.Load() {
			s.Add(9)    // the set is {1,2,3,9} ...
			s.Delete(9) // ... or {1,2,3}, never anything else
		}
	}()
	defer func() { stop.Store(true); wg.Wait() }()

	deadline := time.Now().Add(3 * time.Second)
	for i := 0; time.Now().Before(deadline); i++ {
		encoded, err := s.Encode(api)
		if err != nil {
			t.Fatalf("iteration %d: Encode failed: %v", i, err)
		}

		decoded := ds.NewSet[uint8]()
		bytesRead, err := decoded.Decode(api, encoded)
		if err != nil {
			t.Fatalf("iteration %d: Encode returned [% x] (count %d, %d entries follow); Decode rejects it: %v", i, encoded, encoded[0], len(encoded)-4, err)
		}
		if bytesRead != len(encoded) {
			t.Fatalf("iteration %d: Encode returned [% x] (count %d, %d entries follow); Decode reads %v and leaves %d byte(s) behind", i, encoded, encoded[0], len(encoded)-4, decoded.ToSlice(), len(encoded)-bytesRead)
		}
	}
}

func TestRegressionAuditC116_OrderedMapEncodeConcurrentSetDelete(t *testing.T) {
	api := serix.NewAPI()
	m := serializableorderedmap.New[uint8, uint8]()
	m.Set(1, 10)
	m.Set(2, 20)

	var stop atomic.Bool
	var wg sync.WaitGroup
	wg.Add(1)
	go func() {
		defer wg.Done()
		for !stop.Load() {
			m.Set(9, 90)
			m.Delete(9)
		}
	}()
	defer func() { stop.Store(true); wg.Wait() }()

	deadline := time.Now().Add(3 * time.Second)
	for i := 0; time.Now().Before(deadline); i++ {
		encoded, err := m.Encode(api)
		if err != nil {
			t.Fatalf("iteration %d: Encode failed: %v", i, err)
		}

		decoded := serializableorderedmap.New[uint8, uint8]()
		bytesRead, err := decoded.Decode(api, encoded)
		if err != nil || bytesRead != len(encoded) {
			t.Fatalf("iteration %d: Encode returned [% x] (count %d, %d entries follow); Decode: bytesRead=%d of %d, err=%v", i, encoded, encoded[0], (len(encoded)-4)/2, bytesRead, len(encoded), err)
		}
	}
}

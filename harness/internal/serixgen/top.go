package serixgen

import (
	"context"
	"reflect"

	"github.com/iotaledger/hive.go/serializer/v2/serix"
	"pgregory.net/rapid"
)

// Top-level objects: the value handed to Encode/Decode is not a struct of the generated schema but a collection,
// string, leaf, interface value or pointer, and the settings that a struct field would carry in its tag are passed with
// the call (serix.WithTypeSettings). This is how iota.go encodes stand-alone lists and identifiers.

// NewCaseWithTop is NewCase plus a drawn top-level node (Case.Top) and, where the node's settings do not come from the
// registry, the settings for the call (Case.TopCall).
func NewCaseWithTop(t *rapid.T, cfg Config) *Case {
	c := &Case{API: serix.NewAPI(), Cfg: cfg, reg: map[reflect.Type]*regEntry{}}
	c.drawPoolSettings(t)
	c.Root = c.genStruct(t, 0, "root")
	c.genTop(t)
	c.registerAll()

	return c
}

func (c *Case) genTop(t *rapid.T) {
	const l = "top"
	call := func(s Settings) {
		ts := s.toTypeSettings(nil)
		c.TopCall = &ts
	}
	switch rapid.IntRange(0, 10).Draw(t, l+".kind") {
	case 10:
		// a byte array (by value or through a pointer) whose object type comes with the call only
		n := rapid.IntRange(1, 8).Draw(t, l+".n")
		code := &Code{W: rapid.SampledFrom([]int{1, 4}).Draw(t, l+".codeW")}
		if code.W == 1 {
			code.V = uint32(rapid.IntRange(0, 255).Draw(t, l+".codeV"))
		} else {
			code.V = rapid.Uint32().Draw(t, l+".codeV")
		}
		arr := &Node{Kind: KByteArr, T: reflect.ArrayOf(n, numTypes[KUint8]), N: n, Code: code}
		ts := Settings{}.toTypeSettings(code)
		c.TopCall = &ts
		if rapid.Bool().Draw(t, l+".ptr") {
			c.Top = &Node{Kind: KPtr, T: reflect.PointerTo(arr.T), Elem: arr}
		} else {
			c.Top = arr
		}
		c.TopKind = "byte_array_with_call_object_type"
	case 0:
		c.Top, c.TopKind = c.genNamedColl(t, l), "named_collection"
	case 1, 2:
		// unnamed slice: every rule can be passed with the call
		s := drawCollSettings(t, l, true, c.Cfg.MaxElems)
		el := c.genElem(t, 1, l)
		for el.Kind == KUint8 {
			el = c.genFixedLeaf(t, l+".re")
		}
		c.Top, c.TopKind = &Node{Kind: KSlice, T: reflect.SliceOf(el.T), S: s, Elem: el}, "slice_with_call_settings"
		call(s)
	case 3:
		s := drawCollSettings(t, l, false, c.Cfg.MaxElems)
		el, k := c.genElem(t, 1, l), c.genKey(t, l)
		c.Top, c.TopKind = &Node{Kind: KMap, T: reflect.MapOf(k.T, el.T), S: s, Key: k, Elem: el}, "map_with_call_settings"
		call(s)
	case 4:
		s := drawCollSettings(t, l, false, c.Cfg.MaxElems)
		el := c.genElem(t, 1, l)
		for el.Kind == KUint8 {
			el = c.genFixedLeaf(t, l+".re")
		}
		cnt := rapid.IntRange(1, 3).Draw(t, l+".arrN")
		if rapid.IntRange(0, 3).Draw(t, l+".fitbounds") != 0 {
			if s.Min > cnt {
				s.Min = cnt
			}
			if s.Max != 0 && s.Max < cnt {
				s.Max = cnt
			}
		}
		c.Top, c.TopKind = &Node{Kind: KArray, T: reflect.ArrayOf(cnt, el.T), S: s, N: cnt, Elem: el}, "array_with_call_settings"
		call(s)
	case 5:
		s := drawStrSettings(t, l)
		if rapid.Bool().Draw(t, l+".bytes") {
			c.Top, c.TopKind = &Node{Kind: KBytes, T: tBytes, S: s}, "bytes_with_call_settings"
		} else {
			c.Top, c.TopKind = &Node{Kind: KString, T: tString, S: s}, "string_with_call_settings"
		}
		call(s)
	case 6:
		c.Top, c.TopKind = c.genFixedLeaf(t, l), "leaf"
	case 7:
		if rapid.Bool().Draw(t, l+".pay") {
			c.Top = c.nPayload(1)
		} else {
			c.Top = c.nShape()
		}
		c.TopKind = "interface_value"
	case 8:
		s := c.poolStruct(t)
		if rapid.Bool().Draw(t, l+".ptr") {
			c.Top, c.TopKind = &Node{Kind: KPtr, T: reflect.PointerTo(s.T), Elem: s}, "pointer_to_struct"
		} else {
			c.Top, c.TopKind = s, "struct_by_value"
		}
	default:
		c.Top, c.TopKind = rapid.SampledFrom([]func() *Node{c.nCustomU24, c.nCustomVar, c.nAddrPtr, c.nCirclePtr}).Draw(t, l+".misc")(), "custom_or_coded_pointer"
	}
}

func (c *Case) topOpts(validate bool) []serix.Option {
	o := opts(validate)
	if c.TopCall != nil {
		o = append(o, serix.WithTypeSettings(*c.TopCall))
	}

	return o
}

// EncodeTop hands the top-level value itself to API.Encode.
func (c *Case) EncodeTop(v reflect.Value, validate bool) (out Outcome) {
	defer func() {
		if r := recover(); r != nil {
			out.Panic = r
		}
	}()
	out.Bytes, out.Err = c.API.Encode(context.Background(), v.Interface(), c.topOpts(validate)...)

	return out
}

// DecodeTop decodes into a fresh top-level value (a pointer to it is the destination; for pointer nodes the
// destination is the pointer itself, pointing at a zero value).
func (c *Case) DecodeTop(b []byte, validate bool) (out Outcome) {
	var p reflect.Value
	if c.Top.Kind == KPtr {
		p = reflect.New(c.Top.Elem.T)
		out.Value = p
	} else {
		p = reflect.New(c.Top.T)
		out.Value = p.Elem()
	}
	defer func() {
		if r := recover(); r != nil {
			out.Panic = r
		}
	}()
	out.N, out.Err = c.API.Decode(context.Background(), b, p.Interface(), c.topOpts(validate)...)

	return out
}

// JSONEncodeTop hands the top-level value itself to API.JSONEncode (with the call-level settings).
func (c *Case) JSONEncodeTop(v reflect.Value, validate bool) (out Outcome) {
	defer func() {
		if r := recover(); r != nil {
			out.Panic = r
		}
	}()
	out.Bytes, out.Err = c.API.JSONEncode(context.Background(), v.Interface(), c.topOpts(validate)...)

	return out
}

// JSONDecodeTop decodes a document into a fresh top-level value (destination as in DecodeTop).
func (c *Case) JSONDecodeTop(doc []byte, validate bool) (out Outcome) {
	var p reflect.Value
	if c.Top.Kind == KPtr {
		p = reflect.New(c.Top.Elem.T)
		out.Value = p
	} else {
		p = reflect.New(c.Top.T)
		out.Value = p.Elem()
	}
	defer func() {
		if r := recover(); r != nil {
			out.Panic = r
		}
	}()
	out.Err = c.API.JSONDecode(context.Background(), doc, p.Interface(), c.topOpts(validate)...)

	return out
}

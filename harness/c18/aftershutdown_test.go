package c18

import (
	"fmt"
	"strings"
	"sync"
	"sync/atomic"
	"testing"
	"time"

	"github.com/iotaledger/hive.go/runtime/options"
	"github.com/iotaledger/hive.go/runtime/timed"
	"pgregory.net/rapid"
	"verifharness/internal/ctl"
	"verifharness/internal/stats"
)

// TestCancelAfterWaitingShutdown: histories that end with Cancel(id) calls issued after a waiting Shutdown returned.
// At that point no task is pending any more - every accepted task was delivered, cancelled, dropped by the size bound
// or dropped by the shutdown flags - so Cancel(id) cannot prevent anything and has to say so.
func TestCancelAfterWaitingShutdown(t *testing.T) {
	const check = "cancel_after_waiting_shutdown"
	stats.Rule(check, "rapid draws 1..3 workers, a queue bound from {none,1,2,3}, 1..8 identifiers scheduled once each with due times from {+15 ms, +30 ms, +1 h}, 0..3 Cancel(id) calls before the shutdown, and waiting shutdown flags from {plain (only without hour-long tasks), CancelPendingElements, IgnorePendingTimeouts, both}; the Shutdown runs under the 20 s watchdog (counted from the last near due time); afterwards Cancel(id) is called for every identifier. Oracle: every Cancel(id) after the shutdown returns false; an earlier Cancel(id) that returned true means that callback never ran; no callback ran twice; no callback starts after the Shutdown returned (observed 5 ms later). Distinct by script; non-trivial = at least one task was dropped by the bound or by the flags (it never ran and was not cancelled by the script)")
	rapid.Check(t, func(rt *rapid.T) {
		workers := rapid.IntRange(1, 3).Draw(rt, "workers")
		bound := rapid.SampledFrom([]int{0, 0, 1, 2, 3}).Draw(rt, "bound")
		n := rapid.IntRange(1, 8).Draw(rt, "ids")
		slots := make([]int, n)
		far := false
		for i := range slots {
			slots[i] = rapid.IntRange(0, 2).Draw(rt, "slot")
			far = far || slots[i] == 2
		}
		flagChoices := []int{fCancel, fIgnore, fCancel | fIgnore}
		if !far {
			flagChoices = append(flagChoices, 0, 0)
		}
		flags := rapid.SampledFrom(flagChoices).Draw(rt, "flags")
		pre := rapid.SliceOfN(rapid.IntRange(0, n-1), 0, 3).Draw(rt, "cancelBefore")
		desc := fmt.Sprintf("workers=%d bound=%d slots=%v cancelBefore=%v shutdown=%s", workers, bound, slots, pre, flagName(flags))
		failf := func(format string, a ...any) {
			msg := fmt.Sprintf(format, a...)
			stats.Violation(check, map[string]any{"config": desc, "problem": msg})
			rt.Fatalf("%s: %s", desc, msg)
		}

		var opts []options.Option[timed.Executor]
		if bound > 0 {
			opts = append(opts, timed.WithMaxQueueSize(bound))
		}
		te := timed.NewTaskExecutor[int](workers, opts...)
		ran := make([]atomic.Int32, n)
		var lateStart atomic.Int32
		var closed atomic.Bool
		base := time.Now()
		grid := []time.Time{base.Add(15 * time.Millisecond), base.Add(30 * time.Millisecond), base.Add(time.Hour)}
		for i := 0; i < n; i++ {
			i := i
			if te.ExecuteAt(i, func() {
				if closed.Load() {
					lateStart.Add(1)
				}
				ran[i].Add(1)
			}, grid[slots[i]]) == nil {
				failf("ExecuteAt(%d) returned nil before any Shutdown", i)
			}
		}
		preTrue := map[int]bool{}
		for _, id := range pre {
			if te.Cancel(id) {
				if preTrue[id] {
					failf("Cancel(%d) returned true twice", id)
				}
				preTrue[id] = true
			}
		}
		if !ctl.Within(time.Until(grid[1])+ctl.HangTimeout, func() { te.Shutdown(flagList(flags)...) }) {
			failf("waiting Shutdown did not return\n%s", ctl.Dump())
		}
		closed.Store(true)
		for i := 0; i < n; i++ {
			if te.Cancel(i) {
				failf("Cancel(%d) returned true after the waiting Shutdown(%s) had returned: nothing is pending any more (callback ran %d times), so nothing was prevented", i, flagName(flags), ran[i].Load())
			}
		}
		time.Sleep(5 * time.Millisecond)
		if lateStart.Load() > 0 {
			failf("%d callbacks started after the waiting Shutdown had returned", lateStart.Load())
		}
		dropped := 0
		for i := 0; i < n; i++ {
			switch c := ran[i].Load(); {
			case c > 1:
				failf("the callback of identifier %d ran %d times", i, c)
			case preTrue[i] && c != 0:
				failf("Cancel(%d) returned true before the shutdown but the callback ran", i)
			case c == 0 && !preTrue[i]:
				dropped++
			}
		}
		if bound == 0 && flags == 0 && dropped > 0 {
			failf("%d tasks never ran although nothing cancelled them, the queue is unbounded and the waiting Shutdown had no flags", dropped)
		}
		var ls []string
		if bound > 0 {
			ls = append(ls, "bounded")
		}
		ls = append(ls, "flags:"+flagName(flags))
		stats.Case(check, dropped > 0, desc, func() any { return desc }, ls...)
	})
}

// TestRescheduleAfterShutdown: ExecuteAt(id) on a TaskExecutor that is shutting down gracefully. Whatever ExecuteAt
// answers must be the truth for both tasks of the identifier: if the new task is rejected (nil) the pending one is
// still owed (nothing cancelled it, the shutdown delivers pending tasks); if it is accepted it replaces the pending one.
func TestRescheduleAfterShutdown(t *testing.T) {
	const check = "reschedule_after_shutdown"
	stats.Rule(check, "rapid draws 1..3 workers, 1..4 identifiers with pending tasks due in 40..70 ms, the way the graceful shutdown is started (Shutdown(DontWaitForShutdown) before the re-scheduling, or a waiting Shutdown() in another goroutine released together with it, with -20..20 us head start) and for each identifier whether and when (+5..+30 ms) it is re-scheduled; then the waiting Shutdown is awaited under the 20 s watchdog. Oracle per identifier: re-scheduling answered nil => the first callback ran exactly once and the second never; answered non-nil => the second ran exactly once and the first never; not re-scheduled => the first ran exactly once. Distinct by script; non-trivial = some re-scheduling was rejected")
	rapid.Check(t, func(rt *rapid.T) {
		workers := rapid.IntRange(1, 3).Draw(rt, "workers")
		n := rapid.IntRange(1, 4).Draw(rt, "ids")
		racing := rapid.Bool().Draw(rt, "racing")
		headUs := rapid.IntRange(-20, 20).Draw(rt, "headStartUs")
		type plan struct{ FirstMs, SecondMs int }
		plans := make([]plan, n)
		for i := range plans {
			plans[i].FirstMs = rapid.IntRange(40, 70).Draw(rt, "first")
			if rapid.IntRange(0, 3).Draw(rt, "resched") > 0 {
				plans[i].SecondMs = rapid.IntRange(5, 30).Draw(rt, "second")
			}
		}
		desc := fmt.Sprintf("workers=%d racing=%v head=%dus plans=%v", workers, racing, headUs, plans)
		failf := func(format string, a ...any) {
			msg := fmt.Sprintf(format, a...)
			stats.Violation(check, map[string]any{"config": desc, "problem": msg})
			rt.Fatalf("%s: %s", desc, msg)
		}
		te := timed.NewTaskExecutor[int](workers)
		first := make([]atomic.Int32, n)
		second := make([]atomic.Int32, n)
		base := time.Now()
		for i := range plans {
			i := i
			if te.ExecuteAt(i, func() { first[i].Add(1) }, base.Add(time.Duration(plans[i].FirstMs)*time.Millisecond)) == nil {
				failf("ExecuteAt(%d) returned nil before any Shutdown", i)
			}
		}
		accepted := make([]bool, n)
		resched := func() {
			for i := range plans {
				i := i
				if plans[i].SecondMs > 0 {
					accepted[i] = te.ExecuteAt(i, func() { second[i].Add(1) }, base.Add(time.Duration(plans[i].SecondMs)*time.Millisecond)) != nil
				}
			}
		}
		if racing {
			var ready atomic.Int32
			spin := func(us int) {
				ready.Add(1)
				for ready.Load() < 2 {
				}
				for t0 := time.Now(); us > 0 && time.Since(t0) < time.Duration(us)*time.Microsecond; {
				}
			}
			done := make(chan struct{})
			go func() { spin(headUs); te.Shutdown(); close(done) }()
			spin(-headUs)
			resched()
			if !ctl.WaitChan(done, 100*time.Millisecond+ctl.HangTimeout) {
				failf("the waiting Shutdown did not return\n%s", ctl.Dump())
			}
		} else {
			te.Shutdown(timed.DontWaitForShutdown)
			resched()
			if !ctl.Within(100*time.Millisecond+ctl.HangTimeout, func() { te.Shutdown() }) {
				failf("the waiting Shutdown did not return\n%s", ctl.Dump())
			}
		}
		rejected := 0
		for i, p := range plans {
			f, s := first[i].Load(), second[i].Load()
			switch {
			case p.SecondMs == 0 && f != 1:
				failf("identifier %d (never re-scheduled): its callback ran %d times, want 1 after a graceful waiting Shutdown", i, f)
			case p.SecondMs > 0 && !accepted[i] && (f != 1 || s != 0):
				failf("identifier %d: the re-scheduling was rejected (nil), so the pending task is still owed: first callback ran %d times (want 1), second %d times (want 0)", i, f, s)
			case p.SecondMs > 0 && accepted[i] && (f != 0 || s != 1):
				failf("identifier %d: the re-scheduling was accepted, it replaces the pending task: first callback ran %d times (want 0), second %d times (want 1)", i, f, s)
			}
			if p.SecondMs > 0 && !accepted[i] {
				rejected++
			}
		}
		stats.Case(check, rejected > 0, desc, func() any { return desc }, fmt.Sprintf("racing:%v", racing))
	})
}

// TestScheduleRacingShutdown: several goroutines schedule tasks on an Executor / a Queue while a graceful Shutdown
// starts. A non-nil answer is the library's statement that the task was accepted; every accepted task that is neither
// cancelled nor dropped has to be delivered exactly once before the waiting Shutdown returns.
func TestScheduleRacingShutdown(t *testing.T) {
	const check = "schedule_racing_shutdown"
	stats.Rule(check, "rapid draws 1..3 workers, 2..6 scheduling goroutines, the delay of their tasks (0, 1 or 3 ms, or mixed) and the moment the plain waiting Shutdown() starts (50..800 us after the goroutines); 20 trials (thorough 150) per case: the goroutines call ExecuteAt in a loop until it answers nil, counting the non-nil answers; the main goroutine calls Shutdown() under the 20 s watchdog and then joins the goroutines. Oracle: callbacks run == non-nil answers (each at most once, tracked per task in a mutex-protected set), Size() == 0 afterwards, and nothing runs after Shutdown returned. Distinct by configuration; non-trivial = at least one trial in which some goroutine got a non-nil answer")
	trials := stats.Scale(20, 150)
	rapid.Check(t, func(rt *rapid.T) {
		workers := rapid.IntRange(1, 3).Draw(rt, "workers")
		producers := rapid.IntRange(2, 6).Draw(rt, "producers")
		delayMode := rapid.SampledFrom([]string{"0ms", "1ms", "3ms", "mixed"}).Draw(rt, "delay")
		startUs := rapid.IntRange(50, 800).Draw(rt, "shutdownAfterUs")
		desc := fmt.Sprintf("workers=%d producers=%d delay=%s shutdownAfter=%dus", workers, producers, delayMode, startUs)
		failf := func(format string, a ...any) {
			msg := fmt.Sprintf(format, a...)
			stats.Violation(check, map[string]any{"config": desc, "problem": msg})
			rt.Fatalf("%s: %s", desc, msg)
		}
		anyAccepted := false
		for trial := 0; trial < trials; trial++ {
			ex := timed.NewExecutor(workers)
			var mu sync.Mutex
			runs := map[[2]int]int{}
			var acceptedTotal atomic.Int64
			var closed atomic.Bool
			var late atomic.Int32
			var wg sync.WaitGroup
			for p := 0; p < producers; p++ {
				p := p
				wg.Add(1)
				go func() {
					defer wg.Done()
					for k := 0; k < 1_000_000; k++ {
						k := k
						d := time.Duration(0)
						switch delayMode {
						case "1ms":
							d = time.Millisecond
						case "3ms":
							d = 3 * time.Millisecond
						case "mixed":
							d = time.Duration((p+k)%4) * time.Millisecond
						}
						if ex.ExecuteAt(func() {
							if closed.Load() {
								late.Add(1)
							}
							mu.Lock()
							runs[[2]int{p, k}]++
							mu.Unlock()
						}, time.Now().Add(d)) == nil {
							return
						}
						acceptedTotal.Add(1)
						if k%8 == 7 {
							time.Sleep(20 * time.Microsecond) // keeps the queue small (steering only)
						}
					}
				}()
			}
			for t0 := time.Now(); time.Since(t0) < time.Duration(startUs)*time.Microsecond; {
			}
			if !ctl.WithinHang(func() { ex.Shutdown() }) {
				failf("trial %d: the waiting Shutdown did not return\n%s", trial, ctl.Dump())
			}
			closed.Store(true)
			if !ctl.WithinHang(wg.Wait) {
				failf("trial %d: a scheduling goroutine did not get a nil answer after Shutdown returned\n%s", trial, ctl.Dump())
			}
			time.Sleep(2 * time.Millisecond)
			mu.Lock()
			executed := 0
			var twice []string
			for key, c := range runs {
				executed++
				if c > 1 {
					twice = append(twice, fmt.Sprint(key))
				}
			}
			mu.Unlock()
			if len(twice) > 0 {
				failf("trial %d: tasks ran more than once: %s", trial, strings.Join(twice, " "))
			}
			if acc := int(acceptedTotal.Load()); acc != executed {
				failf("trial %d: %d ExecuteAt calls were accepted (non-nil) but %d callbacks ran before the graceful waiting Shutdown returned and 2 ms beyond (Size()=%d)", trial, acc, executed, ex.Size())
			}
			if late.Load() > 0 {
				failf("trial %d: %d callbacks started after the waiting Shutdown had returned", trial, late.Load())
			}
			if s := ex.Size(); s != 0 {
				failf("trial %d: Size() = %d after the graceful waiting Shutdown", trial, s)
			}
			anyAccepted = anyAccepted || acceptedTotal.Load() > 0
		}
		stats.Case(check, anyAccepted, desc, func() any { return desc })
	})
}

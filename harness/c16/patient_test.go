package c16

import (
	"sync/atomic"
	"time"

	"verifharness/internal/ctl"
)

// hangSeen is set once a hang verdict was produced in this process. From then on (rapid is shrinking a case
// that already failed; every candidate that still hangs would cost the full budget again) the budget is 2 s.
// It never influences whether a process fails: it is only set by a failure.
var hangSeen atomic.Bool

// The hang watchdog of this package: like ctl.WaitChan(ch, ctl.HangTimeout), but the budget only counts
// time during which this process demonstrably ran: the wait is sliced into 100 ms sleeps and a slice that
// took much longer than that (the whole process was frozen or starved: CPU throttling, swap storm,
// SIGSTOP) is counted as 200 ms at most. A real hang is still reported after 20 s of healthy time; a
// machine stall cannot be mistaken for one.
func patientRecv[T any](ch <-chan T, budget time.Duration) (v T, ok bool) {
	const slice, maxCounted = 100 * time.Millisecond, 200 * time.Millisecond
	if hangSeen.Load() && budget > 2*time.Second {
		budget = 2 * time.Second
	}
	var healthy time.Duration
	timer := time.NewTimer(slice)
	defer timer.Stop()
	for healthy < budget {
		t0 := time.Now()
		timer.Reset(slice)
		select {
		case v = <-ch:
			return v, true
		case <-timer.C:
		}
		healthy += min(time.Since(t0), maxCounted)
	}
	// last chance without waiting
	select {
	case v = <-ch:
		return v, true
	default:
		hangSeen.Store(true)
		return v, false
	}
}

// waitHang waits for ch to be closed / receive within the hang budget.
func waitHang[T any](ch <-chan T) bool {
	_, ok := patientRecv(ch, ctl.HangTimeout)
	return ok
}

// withinHang runs f in a new goroutine and reports whether it returned within the hang budget.
func withinHang(f func()) bool {
	done := make(chan struct{})
	go func() {
		defer close(done)
		f()
	}()
	return waitHang(done)
}

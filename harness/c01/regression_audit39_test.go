// Demonstration of an independent auditor (eleventh round), kept as a regression test; see known_findings.json.
package c01

import (
	"context"
	"reflect"
	"strings"
	"testing"

	"github.com/iancoleman/orderedmap"

	"github.com/iotaledger/hive.go/ierrors"
	"github.com/iotaledger/hive.go/serializer/v2/serix"
)

// huntNote writes and reads its map form itself (one key: "note").
type huntNote struct {
	Text string
}

func (n huntNote) EncodeJSON() (any, error) {
	m := orderedmap.New()
	m.Set("note", n.Text)

	return m, nil
}

func (n *huntNote) DecodeJSON(v any) error {
	m, ok := v.(map[string]any)
	if !ok {
		return ierrors.Errorf("huntNote: expected a map, got %T", v)
	}
	s, ok := m["note"].(string)
	if !ok {
		return ierrors.Errorf("huntNote: no string under the key note")
	}
	n.Text = s

	return nil
}

type huntDetails struct {
	Level uint8    `serix:"level"`
	Note  huntNote `serix:",inlined"`
}

type huntRecord struct {
	ID      uint32       `serix:"id"`
	Details *huntDetails `serix:",inlined,optional"`
}

// An inlined optional struct member that is nil is left out by JSONEncode. The member's type has - one level further
// down - an inlined member with a JSON codec of its own: hasKeyOfMember answers "present" for it whatever the map holds
// (repair cabcdc3), so JSONDecode takes the nil member for present and demands its keys.
func TestRegressionAudit39_NilOptionalInlinedMemberWithNestedJSONCodec(t *testing.T) {
	api := serix.NewAPI()
	ctx := context.Background()

	// the member set: round-trips
	{
		in := huntRecord{ID: 7, Details: &huntDetails{Level: 3, Note: huntNote{Text: "hi"}}}
		b, err := api.JSONEncode(ctx, in)
		if err != nil {
			t.Fatalf("JSONEncode (member set): %v", err)
		}
		var out huntRecord
		if err := api.JSONDecode(ctx, b, &out); err != nil {
			t.Fatalf("JSONDecode (member set) of %s: %v", b, err)
		}
		if !reflect.DeepEqual(in, out) {
			t.Fatalf("member set: got %+v (%+v), want %+v (%+v)", out, out.Details, in, in.Details)
		}
	}

	// the member nil
	in := huntRecord{ID: 7}
	b, err := api.JSONEncode(ctx, in)
	if err != nil {
		// the property speaks about values that the encoder accepts: the repair refuses to leave out a member whose keys
		// the decoder can not know - but only with the error that says so
		if !strings.Contains(err.Error(), "can't be left out of the map form") {
			t.Fatalf("JSONEncode (member nil): %v", err)
		}

		return
	}
	t.Logf("JSONEncode wrote %s", b)

	var out huntRecord
	if err := api.JSONDecode(ctx, b, &out); err != nil {
		t.Fatalf("JSONDecode refuses what JSONEncode wrote (%s): %v", b, err)
	}
	if !reflect.DeepEqual(in, out) {
		t.Fatalf("got %+v (details %+v), want %+v", out, out.Details, in)
	}

	// the binary form of the same value round-trips
	bin, err := api.Encode(ctx, in)
	if err != nil {
		t.Fatalf("Encode: %v", err)
	}
	var outBin huntRecord
	if _, err := api.Decode(ctx, bin, &outBin); err != nil {
		t.Fatalf("Decode: %v", err)
	}
}
